"""C09 - marshal/unmarshal and disasm/asm round trips.

Pipeline (DESIGN.md section 0):
 (A) regenerate Gen/Marsh.lean from the current marsh.c (lead bytes, integer/size codec constants, recursion guard,
     numbering point of every container type on the marshal and on the unmarshal side)
 (B,C) kernel re-checks Props/C09 (integer codec, size codec, data-graph round trip with sharing and cycles) + axiom audit
 (D) correspondence: model vs real pushint/readint/push64/read64 (wrapper TU, ASan, bit exact); model vs real `marshal`
     byte for byte and `unmarshal` value for value on random value graphs built in real janet (harness/C09/graph.janet);
     accept/reject and decoded value on truncated / byte-substituted encodings; recursion depth boundary
 (E) direct oracle on the implementation, independent of the model: (unmarshal (marshal g)) deep-equal-with-sharing to g
     for every generated graph; behavioural comparison of closures / fibers / PEGs / channels / int64 boxes and of
     asm(disasm f) (harness/C09/code.janet); readint(pushint x) sweep (all 2^32 in the thorough tier).
"""
import concurrent.futures as cf
import json
import os
import re
import struct

from vlib.core import run_cmd, VERIF
from vlib.build import BuildError
from tools.gen import marsh as gen_marsh
from tools.gen import marshcode as gen_marshcode
from tools.gen import asm as gen_asm
from tools.gen import asmdef as gen_asmdef
from tools.gen import bytecode as gen_bytecode
from tools.gen import peg as gen_peg
from tools.gen.csrc import ExtractError

THEOREMS = ["JanetModel.Props.C09." + t for t in (
    "readint_pushint", "pushint_length", "readint_consumes", "signExtMid_eq",          # integer codec
    "read64_push64",                                                                     # size codec
    "roundtrip_graph", "ids_agree", "roundtrip_graph_top", "roundtrip_tree",            # data graphs: sharing and cycles
    "read_total_inbounds", "unmarshal_nil",                                              # decoder stays inside the buffer
    "asm_operand_roundtrip", "asm_operand_rejects",                                      # assembler operand fields (asm . disasm)
    "env_slot_test_is_bit", "env_walk_visits_set_bits",                                  # closure env written from a live frame
    "roundtrip_code", "roundtrip_funcdef", "roundtrip_funcenv", "code_ids_agree", "roundtrip_code_top",   # functions, funcdefs, closure envs
    "code_model_extends_data_model",                                                     # Code.lean = Graph.lean on data heaps (marshal side)
    "presentation_exists", "presentation_exists_top", "presentation_unique", "presentation_canonical", "presentation_idempotent", "presentation_roundtrip",   # every graph has exactly one presentation in reference-number order
    "asm_disasm_def", "asm_slotcount_covers", "asm_slotcount_le", "asm_slotcount_eq", "asm_disasm_def_tight",   # asm . disasm at funcdef level: slot count, janet_verify
    "asm_disasm_instr", "asm_disasm_bytecode",                                           # asm . disasm on instruction words / bytecode arrays
    "fiber_flags_no_wire_bits",                                                          # unmarshalled fiber flags carry no image-only bit
    "abstract_depth_roundtrip", "abstract_depth_accept_converse", "abstract_depth_symmetric", "abstract_hook_roundtrip_at_depth",   # depth along marshal_one -> hook context -> janet_marshal_janet
    "abstract_hook_roundtrip", "int64_hooks_paired", "int64_box_roundtrip", "channel_hooks_paired", "channel_roundtrip", "peg_hooks_paired", "peg_roundtrip",  # abstract hook protocol
)]

CODE_OBLIGATIONS = ["JanetModel.Marsh.CodeObligations." + t for t in (
    "code_depths_match_model", "unmarshal_never_deeper", "def_field_order", "flag_bits",   # Code.lean vs the current marsh.c
    "hook_calls_match_model",                                                              # Abstract.lean vs inttypes.c / ev.c hooks
    "fiber_wire_bits_stripped", "marshal_leaves_frames_unchanged",                         # image-only fiber / frame bits never live in memory
    "abstract_depths_match_model", "abstract_depth_increments_equal", "abstract_nesting_roundtrips",   # both JanetMarshalContext initialisers are `flags + k`, same k
)]

def _name_obligation(msg):
    """`module does not build; first error: …CodeObligations.lean:LINE:…` -> prefixed with the name of the theorem at that line"""
    m = re.search(r"CodeObligations\.lean:(\d+):", msg)
    if not m:
        return msg
    name = None
    try:
        for i, l in enumerate(open(os.path.join(VERIF, "lean/JanetModel/Marsh/CodeObligations.lean")), 1):
            mm = re.match(r"theorem\s+(\w+)", l)
            if mm and i <= int(m.group(1)):
                name = mm.group(1)
    except OSError:
        pass
    return ("obligation CodeObligations.%s is false on this tree: " % name if name else "") + msg


def run_janet_source(janet, source):
    """run a stand-alone janet scenario; returns (last output line or a description of the crash, rc)"""
    import tempfile
    fd, path = tempfile.mkstemp(prefix="c09-corpus-", suffix=".janet", dir="/var/tmp")
    try:
        with os.fdopen(fd, "w") as f:
            f.write(source)
        rc, out, err = run_cmd([janet, path], timeout=120, env=ENV)
    finally:
        os.unlink(path)
    lines = out.decode(errors="replace").strip().splitlines()
    if rc != 0 or not lines:
        return "FAIL crashed rc=%r: %s" % (rc, err.decode(errors="replace")[-300:]), rc
    return lines[-1], rc


ENV = dict(os.environ, ASAN_OPTIONS="detect_leaks=0:abort_on_error=0", UBSAN_OPTIONS="print_stacktrace=1")
H = os.path.join(VERIF, "harness/C09")
NPROC = 12


def int_cases(ctx, n_random):
    xs = set()
    for b in (0, 127, 128, 8191, 8192, -1, -8192, -8193, 2**15, 2**16, 2**23, 2**24, 2**31 - 1, -2**31, 2**13, 2**14, -2**14, 255, 256, -128, -129, -256):
        for d in range(-3, 4):
            if -2**31 <= b + d < 2**31:
                xs.add(b + d)
    for _ in range(n_random):
        w = ctx.rng.range(1, 31)
        v = ctx.rng.below(1 << w)
        xs.add(v if ctx.rng.chance(1, 2) else -v - 1)
    return sorted(xs)


def byte_cases(ctx, ints, n_random):
    """encodings, all their truncations, single-byte substitutions of the lead byte, random strings"""
    hs = set([""])
    for x in ints[:: max(1, len(ints) // 400)]:
        if 0 <= x < 128:
            enc = bytes([x])
        elif -8192 <= x <= 8191:
            enc = bytes([((x >> 8) & 0x3F) | 0x80, x & 0xFF])
        else:
            enc = bytes([205]) + struct.pack(">i", x)
        for k in range(len(enc) + 1):
            hs.add(enc[:k].hex())
        hs.add((enc + b"\x07\x09").hex())
    for lead in range(256):
        hs.add(bytes([lead]).hex())
        hs.add(bytes([lead, 0xff, 0x00, 0x80, 0x7f, 0x01]).hex())
        hs.add(bytes([lead, 0x20]).hex())
    for _ in range(n_random):
        n = ctx.rng.range(1, 7)
        hs.add(bytes(ctx.rng.below(256) for _ in range(n)).hex())
    return sorted(hs)


def u64_cases(ctx, n_random):
    xs = set()
    for w in range(0, 65):
        for d in (-2, -1, 0, 1, 2):
            v = (1 << w) + d
            if 0 <= v < 2**64:
                xs.add(v)
    for b in (0xF0, 0xF1, 0xEF, 0xFF, 0x100):
        xs.add(b)
    for _ in range(n_random):
        w = ctx.rng.range(1, 64)
        xs.add(ctx.rng.below(1 << w))
    return sorted(xs)


def u64_byte_cases(ctx, xs, n_random):
    hs = set([""])
    for x in xs[:: max(1, len(xs) // 300)]:
        if x <= 0xF0:
            enc = bytes([x])
        else:
            body = x.to_bytes((x.bit_length() + 7) // 8, "little")
            enc = bytes([0xF0 + len(body)]) + body
        for k in range(len(enc) + 1):
            hs.add(enc[:k].hex())
        hs.add((enc + b"\x01").hex())
    for lead in range(0xE0, 0x100):
        hs.add(bytes([lead] + [0x11 * (i + 1) & 0xFF for i in range(10)]).hex())
        hs.add(bytes([lead, 0, 0, 0, 0, 0, 0, 0, 0]).hex())
    for _ in range(n_random):
        n = ctx.rng.range(1, 11)
        hs.add(bytes(ctx.rng.below(256) for _ in range(n)).hex())
    return sorted(hs)


# --------------------------------------------------------------------------- descriptions
def parse_desc(d):
    parts = d.split(" | ")
    return parts[0], [p.split(" ") for p in parts[1:]]


def canon_real(tok):
    """janet_wrap_number_safe: every NaN read from the wire becomes the canonical quiet NaN"""
    b = bytes.fromhex(tok[1:])
    if len(b) == 8:
        v = int.from_bytes(b, "little")
        if (v >> 52) & 0x7FF == 0x7FF and v & ((1 << 52) - 1):
            return "R000000000000f87f"
    return tok


def comparable_decoded(root, objs, known_reg):
    """can two descriptions of the same decoded value be compared textually?  (hash order of tables with pointer parts
    is not determined by the bytes; registry names unknown to the harness decode to nil on the implementation)"""
    for o in objs:
        k = o[0]
        if k.startswith("M") or k == "U":
            kv = o[2:]
            if len(kv) > 2 and any(t.startswith("r") for t in kv):
                return False
        if k.startswith("G") and k[1:] not in known_reg:
            return False
        if k.startswith("R") and canon_real(k) == "R000000000000f87f":
            return False      # a NaN is not `=` to itself: the describer cannot see that two references are one object
    # objects numbered on the wire but dropped from the result (pair with nil value, duplicate key): the describer only
    # sees what is reachable
    reach, todo = set(), [root]
    while todo:
        t = todo.pop()
        if t.startswith("r") and t[1:].isdigit():
            i = int(t[1:])
            if i not in reach and i < len(objs):
                reach.add(i)
                todo += [x for x in objs[i][1:] if x.startswith("r")]
    if len(reach) != len(objs):
        return False
    return True


def hashcons(root, objs):
    """normal form of a decoded description: what the describer (which sees the value only through janet) reports.
    Immutable objects with equal contents are one object (janet `=`), a real that is an int32 is an integer, only the
    bracket bit of a tuple flag is observable, every NaN is the canonical NaN.  Iterated to a fixed point because merging
    children can make parents equal."""
    objs = [list(o) for o in objs]
    for o in objs:
        if o[0].startswith("T"):
            o[0] = "T%d" % (int(o[0][1:]) & 1)
        elif o[0].startswith("R"):
            o[0] = canon_real(o[0])
    while True:
        subst, seen = {}, {}
        for i, o in enumerate(objs):
            k = o[0]
            if k.startswith("R") and len(k) == 17:
                v = struct.unpack("<d", bytes.fromhex(k[1:]))[0]
                if v == v and abs(v) <= 2147483648 and v == int(v) and -2147483648 <= int(v) <= 2147483647:
                    subst[i] = "i%d" % int(v)
                    continue
            key = " ".join(o)
            if k[0] in "RSTUG" and key != "R000000000000f87f":
                if key in seen:
                    subst[i] = "r%d" % seen[key]
                else:
                    seen[key] = i
        if not subst:
            break
        newidx, j = {}, 0
        for i in range(len(objs)):
            if i not in subst:
                newidx[i] = j
                j += 1
        def tr(t):
            if t.startswith("r") and t[1:].isdigit():
                k = int(t[1:])
                if k in subst:
                    t2 = subst[k]
                    return "r%d" % newidx[int(t2[1:])] if t2.startswith("r") else t2
                if k in newidx:
                    return "r%d" % newidx[k]
            return t
        root = tr(root)
        objs = [[o[0]] + [tr(t) for t in o[1:]] for i, o in enumerate(objs) if i not in subst]
    return root, objs


def renumber(root, objs):
    """number the objects in the order the describer meets them when it walks the decoded value (a pair dropped by
    janet_struct_put / janet_table_put can make an object first reachable later than its position on the wire)"""
    import sys
    sys.setrecursionlimit(max(sys.getrecursionlimit(), 20000))
    new, order, busy = {}, [], set()
    def visit(t):
        if not (t.startswith("r") and t[1:].isdigit()):
            return
        k = int(t[1:])
        if k in new or k in busy or k >= len(objs):
            return
        o = objs[k]
        if o[0][0] in "TU":
            busy.add(k)
            for c in o[1:]:
                visit(c)
            busy.discard(k)
            new[k] = len(order)
            order.append(k)
        else:
            new[k] = len(order)
            order.append(k)
            for c in o[1:]:
                visit(c)
    visit(root)
    def tr(t):
        return "r%d" % new[int(t[1:])] if t.startswith("r") and t[1:].isdigit() and int(t[1:]) in new else t
    return tr(root), [[objs[k][0]] + [tr(t) for t in objs[k][1:]] for k in order]


def canon_decoded(root, objs):
    root, objs = hashcons(root, objs)
    root, objs = renumber(root, objs)
    out = []
    for o in objs:
        k = o[0]
        if k.startswith("M") or k == "U":
            kv = o[2:]
            pairs = sorted(zip(kv[0::2], kv[1::2]))
            out.append(" ".join([k, o[1]] + [x for p in pairs for x in p]))
        else:
            out.append(" ".join(o))
    return " | ".join([root] + out)


def proto_type_error(root, objs):
    """janet_asserttype on a decoded prototype is not in the model: emulate it on the model's output"""
    for o in objs:
        k = o[0]
        if (k.startswith("M") or k == "U") and o[1] != "_":
            p = o[1]
            if not p.startswith("r"):
                return True
            t = objs[int(p[1:])][0] if int(p[1:]) < len(objs) else "?"
            if k.startswith("M") and not t.startswith("M"):
                return True
            if k == "U" and t != "U":
                return True
    return False


# --------------------------------------------------------------------------- asm . disasm: every operand field at its boundaries
FIELD_VALUES = {
    # (kind, nbytes, signed) -> in-range boundary values, out-of-range neighbours
    ("slot", 1, False): ([0, 1, 255], [-1, 256]),
    ("slot", 2, False): ([0, 255, 256, 65535], [-1, 65536]),
    ("integer", 2, True): ([-32768, -32767, -1, 0, 1, 32767], [-32769, 32768]),
    ("integer", 2, False): ([0, 1, 65535], [-1, 65536]),
    ("integer", 1, True): ([-128, -127, -1, 0, 1, 127], [-129, 128]),
    ("integer", 1, False): ([0, 1, 255], [-1, 256]),
    ("label", 3, True): ([-70000, -32769, -1, 0, 1, 32768, 70000], []),
    ("label", 2, True): ([-32768, -32767, -1, 0, 1, 32767], [-32769, 32768]),
    ("type", 2, False): ([0, 1, 65535], [65536]),
    ("constant", 2, False): ([0, 255, 256, 65535], [-1]),
    ("funcdef", 2, False): ([0, 255, 256], [-1]),
}


def asm_cases(tree, thorough):
    """one assembler description per (opcode of the generated table, operand, boundary value)"""
    slack, layouts, mnem = gen_asm.extract(tree)
    ops, types, jint = gen_bytecode.extract(tree)
    cases = []
    skipped = []
    for (name, num), ty in zip(ops, types):
        fields = layouts[ty]
        if any(f[0] == "environment" for f in fields):
            skipped.append(name)      # needs enclosing assemblers; covered by compiled nested closures below
            continue
        base = [1 if f[0] == "label" else 0 for f in fields]
        combos = [(list(base), True)]
        for i, f in enumerate(fields):
            key = (f[0], f[2], f[3])
            if key not in FIELD_VALUES:
                raise ExtractError("no boundary values for operand kind %r" % (key,))
            good, bad = FIELD_VALUES[key]
            if thorough and key == ("label", 3, True):
                good = good + [-8388608]
            for v in good:
                a = list(base); a[i] = v; combos.append((a, True))
            for v in bad:
                a = list(base); a[i] = v; combos.append((a, False))
        for args, ok in combos:
            pre = post = 0
            for f, v in zip(fields, args):
                if f[0] == "label":
                    pre, post = max(0, -v), max(0, v)
            need_consts = any(f[0] == "constant" for f in fields)
            need_defs = any(f[0] == "funcdef" for f in fields)
            instr = "(%s%s)" % (mnem[name], "".join(" %d" % v for v in args))
            desc = ("(asm {:slotcount 65536 :arity 0 %s%s:bytecode (array/concat (array/new-filled %d '(noop)) @['%s] (array/new-filled %d '(noop)) @['(retn)])})"
                    % (":constants (array/new-filled 65536 1) " if need_consts else "",
                       ":defs (array/new-filled 257 {:bytecode ['(retn)] :slotcount 1}) " if need_defs else "", pre, instr, post))
            cases.append({"line": "A " + desc, "op": name, "num": num, "args": args, "pos": pre, "expect_ok": ok, "instr": instr})
    return cases, skipped


def compiled_cases(ctx, thorough):
    """source functions whose bytecode has immediates / literals / slots / jumps / constants at field boundaries"""
    out = []
    ks = [-32769, -32768, -32767, -257, -256, -255, -129, -128, -127, -2, -1, 0, 1, 2, 126, 127, 128, 255, 256, 32766, 32767, 32768, 65535, 65536,
          2147483647, -2147483648, 0.5]
    small = [k for k in ks if isinstance(k, int) and abs(k) <= 300]
    for op in ("+", "-", "*", "/", "%", "<", ">", "<=", ">=", "=", "not=", "blshift", "brshift", "brushift", "band", "bor", "bxor", "div", "mod"):
        for k in small:
            out.append("R (fn [x] (%s x %d))" % (op, k))
            out.append("R (fn [x] (%s %d x))" % (op, k))
    for k in ks:
        out.append("R (fn [x] %s)" % k)
        out.append("R (fn [x] (if (= x 1) %s (+ x %s)))" % (k, k))
        out.append("R (fn [x] (fn [] (+ x %s)))" % k)
    # nested closures: environments at depth 0..3, upvalue slots
    out.append("R (fn [x] (var a x) ((fn [] (var b (+ a 1)) ((fn [] (set a (+ a b)) ((fn [] (set b (+ b -128)) (+ a b x))))))))")
    for n in (250, 256, 300, 700):
        # far slots: n live locals
        body = " ".join("(def a%d (+ a%d %d))" % (i + 1, i, (i % 7) - 3) for i in range(n))
        out.append("R (fn [x] (def a0 x) %s (+ a0 a%d a%d a%d))" % (body, n // 2, n - 1, n))
        # many constants
        out.append("R (fn [x] (get [%s] (mod (if (int? x) x 0) %d)))" % (" ".join('"s%d"' % i for i in range(n)), n))
        out.append("R (fn [x] (case x %s :none))" % " ".join('%d "k%d"' % (i, i) for i in range(n)))
    # bodies stay below 32767 instructions: beyond that the *compiler* overflows the 16-bit jump field of jmpif/jmpno
    # (specials.c `(labeljr - labelr) << 16`, no range check) and the function itself hangs or crashes - not a C09 matter
    for n in ([100, 20000] if not thorough else [100, 9000, 20000, 30000]):
        body = " ".join("(set y (+ y %d))" % ((i % 5) - 2) for i in range(n))
        out.append("R (fn [x] (var y 0) (if (= x 1) (do %s) (set y -1)) y)" % body)                       # long forward jumps
        out.append("R (fn [x] (var y 0) (var i 0) (while (< i (mod (if (int? x) x 1) 3)) %s (++ i)) y)" % body)  # long backward jump
    return out


PARAM_LISTS = ["[]", "[a]", "[a b c]", "[& r]", "[a & r]", "[a b & r]", "[&opt a]", "[a &opt b c]", "[a &opt b & r]", "[&keys k]", "[a &keys k]",
               "[&named x y]", "[a &named x]", "[a &opt b &keys k]", "[[a b] c]", "[[a b] & r]", "[{:k v} c]", "[a [b [c d]]]", "[a &opt [b c]]",
               "[a b c d e f g h]", "[a b c d e f g h & r]",
               # rest / keys slot without a name of its own (no symbol-map entry for it)
               "[& []]", "[a & []]", "[& [x]]", "[a & _]", "[&named]", "[a &named]", "[&keys {}]", "[a b &keys {:k v}]", "[&opt a & []]"]


def param_cases(ctx, thorough):
    """every parameter-list kind x bodies that use none / some / all of the parameters (so that the rest / keys / optional /
    destructured slots are, or are not, operands of an instruction), closed over by an inner function or not"""
    out = []
    for pl in PARAM_LISTS:
        names = [n for n in re.findall(r"[a-z]+", pl.replace(":k", "")) if n not in ("opt", "keys", "named")]
        bodies = ["nil", "1", "(+ 1 2)", "(do (def t 5) (+ t 1))", "(do (var t 5) (set t 7) t)", "[%s]" % " ".join(names), "(fn [] 1)"]
        for n in names:
            bodies.append(n)
            bodies.append("(do (def [p q] [%s 2]) p)" % n)
        if names:
            bodies.append("(fn [] %s)" % names[-1])
            bodies.append("(fn [] [%s])" % " ".join(names))
            bodies.append("(do (def u %s) (def [p q] [1 2]) (fn [] u))" % names[0])
        for b in bodies:
            out.append("V (fn %s %s)" % (pl, b))
    nrand = 300 if not thorough else 6000
    for _ in range(nrand):
        pl = PARAM_LISTS[ctx.rng.below(len(PARAM_LISTS))]
        names = [n for n in re.findall(r"[a-z]+", pl.replace(":k", "")) if n not in ("opt", "keys", "named")]
        stmts = []
        avail = list(names)
        for j in range(ctx.rng.below(4)):
            kind = ctx.rng.below(5)
            src = avail[ctx.rng.below(len(avail))] if avail and ctx.rng.below(3) else str(ctx.rng.below(300) - 150)
            nm = "l%d" % j
            if kind == 0:
                stmts.append("(def %s %s)" % (nm, src)); avail.append(nm)
            elif kind == 1:
                stmts.append("(var %s %s)" % (nm, src)); avail.append(nm)
            elif kind == 2:
                stmts.append("(def [%s %sb] [%s 2])" % (nm, nm, src)); avail += [nm, nm + "b"]
            elif kind == 3:
                stmts.append("(def {:k %s} {:k %s})" % (nm, src)); avail.append(nm)
            else:
                stmts.append("(def %s (fn [] %s))" % (nm, src)); avail.append(nm)
        used = [a for a in avail if ctx.rng.below(2)]
        ret = ["nil", "[%s]" % " ".join(used), "(fn [] [%s])" % " ".join(used), used[0] if used else "0"][ctx.rng.below(4)]
        out.append("V (fn %s %s %s)" % (pl, " ".join(stmts), ret))
    return out


def hdr_defs(words, hdr, ses_ops=()):
    """(words, header) of one function as printed by asmwords.c -> list of funcdefs (preorder); `extra` of a funcdef = the
    captured-slot operands of ldu / setu instructions of its descendants that read_instruction hands to it (`env + 1` levels up)"""
    out = []
    for wpart, hpart in zip(words.split("/"), hdr.split("/")):
        body, _, n = wpart.partition(";n=")
        n = int(n or 0)
        wmap = dict(p.split(":") for p in body.split(",") if ":" in p)
        fields, syms, codes = hpart.split(";")
        va, sa, ar, mn, mx, sc, nc, nd, ne = [int(x) for x in fields.split(",")]
        sy = [] if syms == "-" else [tuple(int(x) for x in e.split(":")) for e in syms.split(",")]
        cd = [tuple(int(x) for x in e.split(":")) for e in codes.split(",") if e and e[0] in "-0123456789"]
        var = [(e[0], int(e[1:].split(":")[0]), int(e.split(":")[1])) for e in codes.split(",") if e and e[0] in "cdenw"]
        out.append({"n": n, "wmap": wmap, "vararg": va, "structarg": sa, "arity": ar, "min": mn, "max": mx, "slotcount": sc,
                    "nconsts": nc, "ndefs": nd, "nenvs": ne, "syms": sy, "codes": cd, "variants": var, "extra": [], "parent": None, "walks_past_root": False})
    # preorder + ndefs -> parents
    stack = []
    for d in out:
        while stack and stack[-1][1] == 0:
            stack.pop()
        if stack:
            d["parent"] = stack[-1][0]
            stack[-1][1] -= 1
        stack.append([d, d["ndefs"]])
    for d in out:
        for w in d["wmap"].values():
            w = int(w, 16)
            if (w & 0x7F) in ses_ops:
                b = d
                for _ in range(((w >> 16) & 0xFF) + 1):
                    b = b["parent"] if b is not None else None
                if b is None:
                    d["walks_past_root"] = True
                else:
                    b["extra"].append(w >> 24)
    return out


def asmdef_line(d, sc, variant=None):
    words = [d["wmap"].get(str(i), "00000000") for i in range(d["n"])]
    nc, nd, ne = d["nconsts"], d["ndefs"], d["nenvs"]
    if variant:
        kind, k = variant
        if kind == "c": nc = k
        elif kind == "d": nd = k
        elif kind == "e": ne = k
        elif kind == "n": words = words[:k]
        elif kind == "w": words[k] = "%08x" % ((int(words[k], 16) & ~0x7F & 0xFFFFFFFF) | 0x7F)
    hx = "".join(words) or "-"
    return "asmdef %d %d %d %d %d %d %d %d %s %s%s" % (d["vararg"], d["arity"], d["min"], d["max"], sc, nc, nd, ne, hx,
                                                       ",".join(str(x) for x in d["extra"]) or "-", "".join(" %d %d %d" % e for e in d["syms"]))


def function_depth(ctx, hxc, exe, guard, code_cases, lo=None, hi=None):
    """a function nested d arrays deep, d around the recursion guard: whatever marshals must unmarshal (direct oracle);
    model `marshalc` / `unmarshalc` must agree with the implementation on ok / err at every depth"""
    lo = max(1, guard - 6) if lo is None else lo
    hi = guard + 3 if hi is None else hi
    out = {"rows": [], "violations": [], "broken": []}
    rc, o, err = run_cmd([hxc, os.path.join(H, "codegraph.janet"), "deep", str(lo), str(hi)], timeout=900, env=ENV)
    rows = [l.split() for l in o.decode(errors="replace").splitlines() if l.startswith("deep ")]
    if rc != 0 or len(rows) != hi - lo + 1:
        out["violations"].append(("function-depth-crash", {"kind": "fdeep", "lo": lo, "hi": hi, "rc": rc, "stderr": err.decode(errors="replace")[-2000:]},
                                  "marshal / unmarshal of a deeply nested function crashed"))
        return out
    # description of the function alone (printed by the harness), wrapped in d arrays
    base = None
    for l in o.decode(errors="replace").splitlines():
        if l.startswith("base "):
            base = l[5:]
    mlines = []
    if base and exe:
        def shift(t, k):
            return re.sub(r"\br(\d+)\b", lambda m: "r%d" % (int(m.group(1)) + k), t)
        root, _, tail = base.partition(" | ")
        for d in range(lo, hi + 1):
            arrays = "".join(" | A0 r%d" % (i + 1) for i in range(d))
            mlines.append("marshalc r0" + arrays + " | " + shift(tail, d))
    mo = ctx.model(mlines, exe=exe) if mlines else []
    mo2 = ctx.model([("unmarshalc " + m) if m != "err" else "unmarshalc" for m in mo], exe=exe) if mo else []
    for i, r in enumerate(rows):
        d, mok, uok = int(r[1]), r[3] == "ok", r[5] == "ok"
        row = {"depth": d, "marshal": r[3], "unmarshal": r[5]}
        if mok and not uok:
            out["violations"].append(("function-depth-roundtrip", {"kind": "fdeep", "lo": d, "hi": d, "depth": d,
                                      "janet": "(defn nest [x k] (var v x) (repeat k (set v @[v])) v) (unmarshal (marshal (nest (fn named [] [1 2 3]) %d)))" % d},
                                      "a function nested %d arrays deep is marshalled, but unmarshal rejects the bytes (depth accounting of marshal_one_def and unmarshal_one_def differ)" % d))
        if mo:
            row["model_marshal"] = "ok" if mo[i] != "err" else "err"
            row["model_unmarshal"] = "ok" if mo2[i].startswith("ok") else "err"
            if (mo[i] != "err") != mok or (mok and (mo2[i].startswith("ok")) != uok):
                out["broken"].append("recursion depth boundary with a function: depth %d implementation marshal %s unmarshal %s, model marshal %s unmarshal %s"
                                     % (d, r[3], r[5], row["model_marshal"], row["model_unmarshal"]))
        out["rows"].append(row)
    return out


ABSDEEP_SRC = """(defn wrap [n x] (var v x) (repeat n (set v @[v])) v)
(defn hold [x] %s)
(var v :leaf)
(repeat %d (set v (hold (wrap %d v))))
(def x (wrap %d v))
(def [mok b] (protect (marshal x)))
(if-not mok
  (print "ok marshal raised: " b)
  (let [[uok y] (protect (unmarshal b))]
    (if uok
      (print "ok marshalled " (length b) " bytes and unmarshalled them")
      (print "FAIL marshal produced " (length b) " bytes for %d %s nested through their payloads, unmarshal rejects them: " y))))
"""


def abstract_depth_cases(ctx, guard, quick):
    """(kind, a, i, k): `a` arrays around `k` abstracts, each holding the next one inside `i` arrays; total depth of the leaf is
    a + k * (2 + i).  Around the guard for every offset, far beyond it, and seeded random ones"""
    cases = []
    rng = type(ctx.rng)(ctx.seed).fork("C09/abstract-depth")      # a function of VERIF_SEED only: the case list replays exactly
    for kind in ("peg", "chan"):
        for i in (0, 1, 2):
            per = 2 + i
            for a in (0, 1, 2):
                kb = (guard - a) // per
                for k in range(max(1, kb - 2), kb + 3):
                    cases.append((kind, a, i, k))
        for k in (1, 2, 7, guard // 2 + 50, guard - 1, guard, guard + 1, 2 * guard + 1, 3 * guard):
            cases.append((kind, rng.below(3), 0, k))
        cases.append((kind, 0, 1, guard))
        for _ in range(12 if quick else 200):
            i = rng.below(4)
            a = rng.below(40)
            kb = max(1, (guard - a) // (2 + i))
            k = max(1, kb + rng.range(-3, 3)) if rng.chance(3, 4) else rng.range(1, 3 * guard)
            cases.append((kind, a, i, k))
    seen, out = set(), []
    for c in cases:
        if c not in seen:
            seen.add(c)
            out.append(c)
    return out


def abstract_depth(ctx, janet, exe, guard, quick, cases=None):
    """recursion-depth boundary for values nested through abstract payloads (compiled PEG holding a PEG constant, channel holding
    a channel): direct oracle marshal ok => unmarshal ok and same nesting; correspondence with Marsh/AbsDepth.lean (increments
    of both sides regenerated) on accept / reject of both directions"""
    cases = abstract_depth_cases(ctx, guard, quick) if cases is None else cases
    out = {"stats": {"cases": len(cases), "marshal_ok": 0, "marshal_stack_overflow": 0, "unmarshal_ok": 0, "deepest_ok": 0, "shallowest_rejected": None,
                     "by_kind": {}, "model_diffs": 0}, "violations": [], "broken": []}
    st = out["stats"]
    rows = {}
    pending = list(cases)
    while pending:
        args = [str(x) for c in pending for x in c]
        rc, o, err = run_cmd([janet, os.path.join(H, "absdeep.janet")] + args, timeout=900, env=ENV)
        got = [l for l in o.decode(errors="replace").splitlines() if l.startswith("absdeep ")]
        for c, l in zip(pending, got):
            rows[c] = l
        if len(got) >= len(pending):
            break
        bad = pending[len(got)]              # the process died (or printed nothing) in this case
        rows[bad] = "absdeep %s %d %d %d crashed rc=%r %s" % (bad + (rc, err.decode(errors="replace")[-400:].replace("\n", " ")))
        pending = pending[len(got) + 1:]
    mo = ctx.model(["absdepth %d %d %d" % c[1:] for c in cases], exe=exe) if exe else []
    for n, c in enumerate(cases):
        kind, a, i, k = c
        w = rows[c].split()
        depth = a + k * (2 + i)
        src = ABSDEEP_SRC % ("(peg/compile (tuple 'constant x))" if kind == "peg" else "(let [c (ev/chan 1)] (ev/give c x) c)", k, i, a, k,
                             "compiled PEGs" if kind == "peg" else "channels")
        rep = {"kind": "janet", "signature": "abstract-depth-roundtrip", "source": src, "case": list(c), "line": rows[c][:600]}
        if "crashed" in w[5:6]:
            out["violations"].append(("abstract-depth-crash", dict(rep, signature="abstract-depth-crash"),
                                      "marshal / unmarshal of %d %s nested through their payloads took the process down: %s" % (k, kind, rows[c][:300])))
            continue
        mok, uok, sok = w[6] == "ok", w[8] == "ok", w[10] == "ok"
        st["by_kind"][kind] = st["by_kind"].get(kind, 0) + 1
        if mok:
            st["marshal_ok"] += 1
            st["deepest_ok"] = max(st["deepest_ok"], depth)
            st["unmarshal_ok"] += 1 if uok else 0
            if not uok or not sok:
                out["violations"].append(("abstract-depth-roundtrip", rep,
                                          "%d %s nested through their payloads (%d arrays outside, %d between) are marshalled, but %s: %s"
                                          % (k, "compiled PEGs" if kind == "peg" else "channels", a, i,
                                             "unmarshal rejects the bytes" if not uok else "the copy has a different nesting", rows[c][:300])))
        else:
            if "stack overflow" in rows[c]:
                st["marshal_stack_overflow"] += 1
            st["shallowest_rejected"] = depth if st["shallowest_rejected"] is None else min(st["shallowest_rejected"], depth)
        if mo:
            mm = mo[n].split()
            if len(mm) != 2 or (mm[0] == "ok") != mok or (mok and (mm[1] == "ok") != uok):
                st["model_diffs"] += 1
                if st["model_diffs"] <= 3:
                    out["broken"].append("recursion depth boundary through abstract payloads: %s a=%d i=%d k=%d implementation `%s`, model (marshalD unmarshalD) `%s`"
                                         % (kind, a, i, k, " ".join(w[5:11]), mo[n]))
    return out


def run(ctx):
    quick = ctx.tier == "quick"
    broken = []
    stats = {}
    # (A) regenerate
    lb = {}
    try:
        ctx.build.boot()
        ctx.gen("Marsh.lean", gen_marsh.render(ctx.build.tree))
        ctx.gen("MarshCode.lean", gen_marshcode.render(ctx.build.tree))
        lb = gen_marsh.extract(ctx.build.tree)[0]
        ctx.gen("Bytecode.lean", gen_bytecode.render(ctx.build.tree))
        ctx.gen("Asm.lean", gen_asm.render(ctx.build.tree))
        ctx.gen("AsmDef.lean", gen_asmdef.render(ctx.build.tree))
    except ExtractError as e:
        broken.append("translator tools/gen (marsh / marshcode / bytecode / asm / asmdef): %s" % e)
        ctx.broken.append(broken[-1])
    except BuildError as e:
        ctx.violation("build-failed", {"kind": "build", "error": str(e)}, found=False, what="tree does not build")
        return ctx.finish("proof", {"evaluations": 0, "distinct_nontrivial": 0})
    # (B,C) kernel check + audit
    broken += ctx.obligations("JanetModel.Props.C09", THEOREMS)
    code_broken = [_name_obligation(b) for b in ctx.obligations("JanetModel.Marsh.CodeObligations", CODE_OBLIGATIONS)]
    broken += code_broken
    if not quick:
        ok, log = ctx.leanchecker("JanetModel.Props.C09")
        if not ok:
            broken.append("leanchecker JanetModel.Props.C09: " + log[-300:])
    ctx.say("obligations: %d broken" % len(broken))
    # (D1) codec correspondence
    exe = ctx.driver()
    try:
        hx = ctx.build.harness("asan", "c09codec", [os.path.join(H, "codec.c")])
    except BuildError as e:
        hx = None
        broken.append("harness does not compile against the current tree: %s" % str(e)[-400:])
    ints = int_cases(ctx, 3000 if quick else 200000)
    hexes = byte_cases(ctx, ints, 2000 if quick else 100000)
    u64s = u64_cases(ctx, 2000 if quick else 100000)
    u64hex = u64_byte_cases(ctx, u64s, 2000 if quick else 50000)
    lines = (["pushint %d" % x for x in ints] + [("readint " + h).strip() for h in hexes]
             + ["push64 %d" % x for x in u64s] + [("read64 " + h).strip() for h in u64hex])
    diffs = []
    impl_out = None
    if hx:
        rc, out, err = run_cmd([hx], input=("\n".join(lines) + "\n").encode(), timeout=600, env=ENV)
        impl_out = out.decode(errors="replace").splitlines()
        if rc != 0 or len(impl_out) != len(lines):
            lo, hi = 0, len(lines)
            while hi - lo > 1:
                mid = (lo + hi) // 2
                rc2, o2, e2 = run_cmd([hx], input=("\n".join(lines[lo:mid]) + "\n").encode(), timeout=600, env=ENV)
                if rc2 != 0:
                    hi = mid
                else:
                    lo = mid
            ctx.violation("codec-crash:" + lines[lo], {"kind": "crash", "op": lines[lo], "rc": rc, "stderr": err.decode(errors="replace")[-2000:]},
                          what="implementation crashed / sanitizer report on `%s`" % lines[lo])
            impl_out = None
    if exe and impl_out is not None:
        model_out = ctx.model(lines, exe=exe)
        for l, a, b in zip(lines, impl_out, model_out):
            if a != b:
                diffs.append({"op": l, "impl": a, "model": b})
        if diffs:
            broken.append("correspondence model/impl on integer/size codec: %d differing lines, first %r" % (len(diffs), diffs[0]))
            ctx.broken.append(broken[-1])
    ctx.say("codec correspondence: %d lines, %d diffs" % (len(lines), len(diffs)))

    # (D2/E) data graphs
    janet = None
    try:
        janet = ctx.build.variant("asan")["janet"]
    except BuildError as e:
        ctx.violation("build-failed:asan", {"kind": "build", "error": str(e)}, found=False, what="tree does not build (asan)")
    direct_fail = None
    graph_cases = []
    gstats = {"cases": 0, "with_registry": 0, "refs": 0, "objects": 0, "max_objects": 0, "kinds": {}, "oracle_fail": 0,
              "marshal_diffs": 0, "unmarshal_diffs": 0}
    gdiffs = []
    violations = []
    if janet:
        nproc = NPROC
        per = 250 if quick else 4000
        seeds = [ctx.rng.below(2**31 - 1) + 1 for _ in range(nproc)]
        if broken:
            per *= 4      # something no longer checks: search harder for a failing input
        def gen(seed):
            rc, out, err = run_cmd([janet, os.path.join(H, "graph.janet"), "gen", str(seed), str(per), "45"], timeout=3000, env=ENV)
            return seed, rc, out.decode(errors="replace").splitlines(), err.decode(errors="replace")[-3000:]
        with cf.ThreadPoolExecutor(nproc) as ex:
            res = list(ex.map(gen, seeds))
        for seed, rc, out, err in res:
            for l in out:
                p = l.split(" ", 4)
                if len(p) == 5 and p[0].isdigit() and p[2] in ("0", "1"):
                    graph_cases.append((seed,) + tuple(p))
            if rc != 0:
                violations.append(("graph-harness-crash", {"kind": "graph-crash", "gen_seed": seed, "per": per, "rc": rc, "stderr": err, "last": out[-1:] },
                                   "graph.janet gen %d crashed / raised (rc=%r): %s" % (seed, rc, err[-300:])))
        glines = []
        for seed, idx, verdict, reg, hexb, desc in graph_cases:
            glines.append("marshal " + desc)
            glines.append("unmarshal " + (hexb if hexb != "-" else ""))
        mout = ctx.model(glines, exe=exe) if exe else None
        # the two models agree on data graphs: Code.lean's marshalC / unmarshalC on a heap without code objects vs Graph.lean
        mout2 = ctx.model([("marshalc " + l[8:] + " # # ") if l.startswith("marshal ") else ("unmarshalc" + l[9:]) for l in glines], exe=exe) if exe else None
        if mout is not None and mout2 is not None:
            nd = 0
            for a1, a2, l in zip(mout, mout2, glines):
                a2n = a2[:-5].rstrip() if a2.endswith(" #  # ") or a2.endswith("#  #") else a2
                a2n = re.sub(r"\s*#\s*#\s*$", "", a2)
                if a1.strip() != a2n.strip():
                    nd += 1
                    if nd == 1:
                        broken.append("Code.lean and Graph.lean disagree on a data graph: %s -> %s vs %s" % (l[:200], a1[:200], a2[:200]))
                        ctx.broken.append(broken[-1])
            gstats["models_compared_on_data_graphs"] = len(glines)
            gstats["model_model_diffs"] = nd
        for i, (seed, idx, verdict, reg, hexb, desc) in enumerate(graph_cases):
            gstats["cases"] += 1
            gstats["with_registry"] += int(reg)
            root, objs = parse_desc(desc)
            gstats["objects"] += len(objs)
            gstats["max_objects"] = max(gstats["max_objects"], len(objs))
            nref = hexb.count("da")  # rough
            for o in objs:
                k = o[0][0]
                gstats["kinds"][k] = gstats["kinds"].get(k, 0) + 1
            if verdict != "ok":
                gstats["oracle_fail"] += 1
                violations.append(("graph-roundtrip:" + verdict.split(":")[1] if ":" in verdict else "graph-roundtrip",
                                   {"kind": "graph", "gen_seed": seed, "per": per, "index": int(idx), "verdict": verdict, "marshalled_hex": hexb, "description": desc, "registry": reg},
                                   "(unmarshal (marshal g)) is not the same graph as g: %s (graph.janet gen %d, case %s)" % (verdict, seed, idx)))
            if mout is not None:
                m, u = mout[2 * i], mout[2 * i + 1]
                if hexb == "-" or desc == "?":
                    continue
                if m != hexb:
                    gstats["marshal_diffs"] += 1
                    gdiffs.append({"what": "marshal bytes", "gen_seed": seed, "index": int(idx), "description": desc, "impl": hexb, "model": m})
                exp = "ok %d %s" % (len(hexb) // 2, desc)
                if u != exp:
                    gstats["unmarshal_diffs"] += 1
                    gdiffs.append({"what": "unmarshal of the implementation's bytes", "gen_seed": seed, "index": int(idx), "expected": exp, "model": u})
        # (D2b) the presentation in reference-number order exists and is canonical (Marsh/Present.lean): the same graph with its heap
        # in a random address order goes through the seen-table marshaller of the model; it must write janet's bytes and compute
        # the description janet's `describe` computed
        if exe:
            plines, pexp = [], []
            for seed, idx, verdict, reg, hexb, desc in graph_cases:
                if hexb == "-" or desc == "?":
                    continue
                root, objs = parse_desc(desc)
                k = len(objs)
                perm = list(range(k))
                ctx.rng.shuffle(perm)
                ren = lambda t: re.sub(r"^r(\d+)$", lambda m: "r%d" % perm[int(m.group(1))], t)
                addr = [None] * k
                for i, o in enumerate(objs):
                    addr[perm[i]] = " ".join(ren(t) for t in o)
                plines.append("present " + " | ".join([ren(root)] + addr))
                pexp.append(hexb + " " + desc)
            pout = ctx.model(plines, exe=exe) if plines else []
            gstats["presentations_from_permuted_heaps"] = len(plines)
            gstats["presentation_diffs"] = 0
            for l, e, o in zip(plines, pexp, pout):
                if o.strip() != e.strip():
                    gstats["presentation_diffs"] += 1
                    if gstats["presentation_diffs"] == 1:
                        gdiffs.append({"what": "presentation of a permuted heap", "line": l[:400], "expected": e[:400], "model": o[:400]})
        if gdiffs:
            broken.append("correspondence model/impl on data graphs: %d marshal / %d unmarshal differences, first %s" %
                          (gstats["marshal_diffs"], gstats["unmarshal_diffs"], json.dumps(gdiffs[0])[:600]))
            ctx.broken.append(broken[-1])
        ctx.say("graph correspondence: %d cases, %d objects, marshal diffs %d, unmarshal diffs %d, oracle failures %d" %
                (gstats["cases"], gstats["objects"], gstats["marshal_diffs"], gstats["unmarshal_diffs"], gstats["oracle_fail"]))

        # (D3) decode of damaged encodings: truncations and single-byte substitutions
        mut = []
        pick = [c for c in graph_cases if len(c[4]) <= 600]
        nm = 1500 if quick else 20000
        boundary = [0, 1, 0x7f, 0x80, 0xbf, 0xc0, 0xc7] + list(range(0xc8, 0xea)) + [0xff]
        for _ in range(min(nm, len(pick) * 4)):
            c = ctx.rng.choice(pick)
            b = bytearray(bytes.fromhex(c[4]))
            r = ctx.rng.below(10)
            if r < 4 and len(b) > 1:
                b = b[:ctx.rng.range(1, len(b) - 1)]
            elif r < 8:
                b[ctx.rng.below(len(b))] = ctx.rng.choice(boundary)
            else:
                j = ctx.rng.below(len(b))
                b[j] = (b[j] + ctx.rng.choice([1, 255])) & 0xFF
            mut.append(bytes(b).hex())
        mut = sorted(set(mut))
        dstats = {"inputs": len(mut), "both_reject": 0, "both_accept_equal": 0, "both_accept_uncompared": 0, "out_of_model": 0, "diffs": 0}
        if mut and exe:
            # memory safety on damaged input is property C10; here only the decoded value matters, so this part runs on the
            # plain build (UBSan flags `flag << 16` on a negative tuple flag read from a damaged stream, marsh.c unmarshal_one)
            try:
                janet_plain = ctx.build.variant("plain")["janet"]
            except BuildError:
                janet_plain = janet
            rc, out, err = run_cmd([janet_plain, os.path.join(H, "graph.janet"), "decode"], input=("\n".join(mut) + "\n").encode(), timeout=1200, env=ENV)
            iout = out.decode(errors="replace").splitlines()
            if rc != 0 or len(iout) != len(mut):
                k = len(iout)
                bad = mut[k] if k < len(mut) else "?"
                ctx.notes.append("unmarshal crashed on a damaged encoding near %s (rc=%r): memory safety of untrusted input is C10" % (bad[:120], rc))
                dstats["crash"] = bad[:200]
                if os.environ.get("C09_DEBUG"):
                    open("/tmp/c09t/mut.txt", "w").write("\n".join(mut) + "\n")
                    open("/tmp/c09t/mut.out", "w").write(out.decode(errors="replace"))
            else:
                mo = ctx.model(["unmarshal " + h for h in mut], exe=exe)
                known_reg = set(n.encode().hex() for n in ("print", "math/sin", "my/regtab", "string/format"))
                ddiffs = []
                for h, a, b in zip(mut, iout, mo):
                    ia, ib = a.startswith("ok"), b.startswith("ok")
                    if a.startswith("ok ?unsupported") or ((not ib) and ia and re.search(r"^(d7|cc|d9|db|dc|dd|de|e0|e1)|(d7|cc|d9|db|dc|dd|de|e0|e1)", h) and "?" in a):
                        dstats["out_of_model"] += 1
                        continue
                    if not ia and not ib:
                        dstats["both_reject"] += 1
                        continue
                    if ib:
                        mdesc = b.split(" ", 2)[2]
                        mroot, mobjs = parse_desc(mdesc)
                    if ib and not ia:
                        if proto_type_error(mroot, mobjs) and "expected type" in a:
                            dstats["both_reject"] += 1
                            continue
                        ddiffs.append({"hex": h, "impl": a, "model": b})
                        continue
                    if ia and not ib:
                        # types outside the data model (functions, fibers, abstracts) may still decode on the implementation
                        if re.search(r"d7|cc|d9|dd|de|e0|e1", h):
                            dstats["out_of_model"] += 1
                            continue
                        ddiffs.append({"hex": h, "impl": a, "model": b})
                        continue
                    iroot, iobjs = parse_desc(a[3:])
                    if not comparable_decoded(mroot, mobjs, known_reg) or not comparable_decoded(iroot, iobjs, known_reg) \
                            or not comparable_decoded(*hashcons(mroot, mobjs), known_reg):
                        dstats["both_accept_uncompared"] += 1
                        continue
                    if canon_decoded(mroot, mobjs) == canon_decoded(iroot, iobjs):
                        dstats["both_accept_equal"] += 1
                    else:
                        # int-valued reals, NaN keys, -0.0: the describer normalises what the model keeps boxed
                        if any(o[0].startswith("R") for o in mobjs) and not any(o[0].startswith("R") for o in iobjs) and len(mobjs) != len(iobjs):
                            dstats["both_accept_uncompared"] += 1
                        else:
                            ddiffs.append({"hex": h, "impl": a, "model": b})
                dstats["diffs"] = len(ddiffs)
                if ddiffs:
                    broken.append("correspondence model/impl on damaged encodings: %d differences, first %s" % (len(ddiffs), json.dumps(ddiffs[:12])[:5000]))
                    ctx.broken.append(broken[-1])
        stats["damaged"] = dstats
        ctx.say("damaged encodings: %r" % dstats)

        # (D4) recursion depth boundary
        guard = 1024
        m = re.search(r"recursionGuard : Nat := (\d+)", gen_marsh.render(ctx.build.tree)) if not any("translator" in b for b in broken) else None
        if m:
            guard = int(m.group(1))
        lo, hi = max(1, guard - 3), guard + 3
        rc, out, err = run_cmd([janet, os.path.join(H, "graph.janet"), "deep", str(lo), str(hi)], timeout=600, env=ENV)
        dl = out.decode(errors="replace").splitlines()
        deep_lines = []
        for d in range(lo, hi + 1):
            deep_lines.append("marshal r0" + "".join(" | A0 r%d" % (k + 1) for k in range(d)) + " | A0")
        dm = ctx.model(deep_lines, exe=exe) if exe else []
        deep = []
        for d, il, ml in zip(range(lo, hi + 1), dl, dm):
            iok = " ok " in il
            mok = ml != "err"
            deep.append((d, iok, mok))
            if "FAIL" in il:
                violations.append(("deep-roundtrip", {"kind": "deep", "depth": d, "line": il}, "nested arrays of depth %d do not round-trip: %s" % (d, il)))
            elif iok != mok or (iok and int(il.split()[-1]) * 2 != len(ml)):
                broken.append("recursion depth boundary: depth %d impl %s model %s" % (d, il, "ok" if mok else "err"))
                ctx.broken.append(broken[-1])
        if rc != 0 or len(dl) != hi - lo + 1:
            violations.append(("deep-crash", {"kind": "deep", "rc": rc, "stderr": err.decode(errors="replace")[-2000:]}, "marshal of deeply nested arrays crashed"))
        stats["depth_boundary"] = deep
        # (D4b) the same boundary for values nested through abstract payloads (PEG constants, queued channel items)
        ad = abstract_depth(ctx, janet, exe, guard, quick)
        stats["abstract_depth_boundary"] = ad["stats"]
        violations += ad["violations"][:3]
        for b in ad["broken"]:
            broken.append(b)
            ctx.broken.append(b)
        ctx.say("abstract depth boundary: %r" % ad["stats"])

        # (D6) value graphs with code objects: functions, funcdefs (sharing through seen_defs), closure environments
        # (sharing through seen_envs, detached and early-detach), model Marsh/Code.lean vs real marshal / unmarshal
        cgstats = {"cases": 0, "skipped": 0, "oracle_fail": 0, "marshal_diffs": 0, "unmarshal_diffs": 0, "functions": 0, "funcdefs": 0,
                   "environments": 0, "funcdef_refs": 0, "funcenv_refs": 0, "max_funcdefs": 0, "with_symbolmap": 0, "with_sourcemap": 0,
                   "with_bitset": 0, "with_subdefs": 0, "registry_values": 0, "bytes": 0, "fibers": 0, "fiber_frames": 0, "onstack_envs": 0}
        try:
            hxc = ctx.build.harness("asan", "c09codedesc", [os.path.join(H, "codedesc.c")])
        except BuildError as e:
            hxc = None
            broken.append("code-describing harness does not compile against the current tree: %s" % str(e)[-400:])
            ctx.broken.append(broken[-1])
        code_cases = []
        if hxc:
            cper = 60 if quick else 1500
            if broken:
                cper *= 4
            cgseeds = [ctx.rng.below(2**31 - 1) + 1 for _ in range(nproc)]
            def cgen(seed):
                rc, out, err = run_cmd([hxc, os.path.join(H, "codegraph.janet"), "gen", str(seed), str(cper)], timeout=3000, env=ENV)
                return seed, rc, out.decode(errors="replace").splitlines(), err.decode(errors="replace")[-3000:]
            with cf.ThreadPoolExecutor(nproc) as ex:
                cgres = list(ex.map(cgen, cgseeds))
            for seed, rc, out, err in cgres:
                for l in out:
                    p = l.split(" ", 3)
                    if len(p) == 4 and p[0].isdigit():
                        code_cases.append((seed,) + tuple(p))
                if rc != 0:
                    violations.append(("codegraph-harness-crash", {"kind": "codegraph-crash", "gen_seed": seed, "per": cper, "rc": rc, "stderr": err, "last": out[-1:]},
                                       "codegraph.janet gen %d crashed / raised (rc=%r): %s" % (seed, rc, err[-300:])))
            cglines = []
            for seed, idx, verdict, hexb, desc in code_cases:
                if verdict.startswith("skip") or desc == "?":
                    continue
                cglines.append("marshalc " + desc)
                cglines.append("unmarshalc " + hexb)
            cmo = ctx.model(cglines, exe=exe) if exe and cglines else None
            k = 0
            cgdiffs = []
            for seed, idx, verdict, hexb, desc in code_cases:
                if verdict.startswith("skip"):
                    cgstats["skipped"] += 1
                    continue
                cgstats["cases"] += 1
                if verdict != "ok":
                    cgstats["oracle_fail"] += 1
                    violations.append(("codegraph-roundtrip:" + verdict.split(":")[1][:40], {"kind": "codegraph", "gen_seed": seed, "per": cper, "index": int(idx), "verdict": verdict,
                                                                                             "marshalled_hex": hexb[:4000], "description": desc[:4000]},
                                       "(unmarshal (marshal g)) of a graph with functions is not the same graph: %s (codegraph.janet gen %d, case %s)" % (verdict, seed, idx)))
                if desc == "?":
                    continue
                secs = desc.split(" # ")
                nd = secs[1].count("D ") and len(secs[1].split(" | ")) if len(secs) > 1 and secs[1].strip() else 0
                ne = len(secs[2].split(" | ")) if len(secs) > 2 and secs[2].strip() else 0
                cgstats["functions"] += len(re.findall(r"\| F \d", secs[0]))
                cgstats["funcdefs"] += nd
                cgstats["environments"] += ne
                cgstats["max_funcdefs"] = max(cgstats["max_funcdefs"], nd)
                cgstats["funcdef_refs"] += hexb.count("dc")      # rough: byte value of LB_FUNCDEF_REF
                cgstats["funcenv_refs"] += hexb.count("db")
                cgstats["registry_values"] += len(re.findall(r"\| G", secs[0]))
                for fm in re.finditer(r"\| Y -?\d+ \d+ \d+ \d+ \d+ \S+ \S+ \S+ (\d+)", secs[0]):
                    cgstats["fibers"] += 1
                    cgstats["fiber_frames"] += int(fm.group(1))
                if len(secs) > 2:
                    cgstats["onstack_envs"] += len(re.findall(r"Es \d", secs[2]))
                cgstats["bytes"] += len(hexb) // 2
                if len(secs) > 1:
                    cgstats["with_symbolmap"] += len(re.findall(r" S [1-9]", secs[1]))
                    cgstats["with_sourcemap"] += len(re.findall(r" M [1-9]", secs[1]))
                    cgstats["with_bitset"] += len(re.findall(r" X [1-9]", secs[1]))
                    cgstats["with_subdefs"] += len(re.findall(r" D [1-9]\d* \d", secs[1]))
                if cmo is not None:
                    m, u = cmo[k], cmo[k + 1]
                    k += 2
                    if m != hexb:
                        cgstats["marshal_diffs"] += 1
                        cgdiffs.append({"what": "marshal bytes (code objects)", "gen_seed": seed, "index": int(idx), "description": desc[:3000], "impl": hexb[:3000], "model": m[:3000]})
                    exp = "ok %d %s" % (len(hexb) // 2, desc)
                    if u.strip() != exp.strip():
                        cgstats["unmarshal_diffs"] += 1
                        cgdiffs.append({"what": "unmarshal of the implementation's bytes (code objects)", "gen_seed": seed, "index": int(idx), "expected": exp[:3000], "model": u[:3000]})
            if cgdiffs:
                broken.append("correspondence model/impl on graphs with code objects: %d marshal / %d unmarshal differences, first %s" %
                              (cgstats["marshal_diffs"], cgstats["unmarshal_diffs"], json.dumps(cgdiffs[0])[:900]))
                ctx.broken.append(broken[-1])
                gdiffs += cgdiffs[:3]
            # (D7) channel hook on the wire: model `marshalHook` with the channel items vs (marshal ch); model `unmarshalHook chanProg`
            # reads the implementation's bytes back to the same state; direct oracle: items taken from the copy
            chstats = {"channels": 0, "closed": 0, "with_items": 0, "max_items": 0, "oracle_fail": 0, "wire_diffs": 0, "read_diffs": 0}
            rc, o, err = run_cmd([hxc, os.path.join(H, "codegraph.janet"), "chan", str(ctx.rng.below(2**31 - 1) + 1), str(150 if quick else 4000)], timeout=1800, env=ENV)
            chl = [l.split(" ") for l in o.decode(errors="replace").splitlines() if l.startswith("chan ")]
            if rc != 0:
                violations.append(("channel-harness-crash", {"kind": "chan-crash", "rc": rc, "stderr": err.decode(errors="replace")[-2000:]}, "channel marshal harness crashed"))
            name = b"core/channel"
            cprefix = (bytes([lb.get("LB_ABSTRACT", 217), lb.get("LB_SYMBOL", 207), len(name)]) + name).hex()
            chm = ctx.model(["chanhook %s %s %s %s" % (c[2], c[3], c[4], " ".join(x for x in c[6:] if x)) for c in chl] +
                            ["chanread " + c[5][len(cprefix):] for c in chl], exe=exe) if exe and chl else None
            for i, c in enumerate(chl):
                chstats["channels"] += 1
                chstats["closed"] += int(c[3])
                items = [x for x in c[6:] if x]
                chstats["with_items"] += 1 if items else 0
                chstats["max_items"] = max(chstats["max_items"], len(items))
                if c[1] != "ok":
                    chstats["oracle_fail"] += 1
                    violations.append(("channel-roundtrip", {"kind": "chan", "line": " ".join(c)[:3000]}, "a channel with queued items does not survive marshal/unmarshal: %s" % " ".join(c)[:200]))
                if chm is not None:
                    if not c[5].startswith(cprefix) or chm[i] != c[5][len(cprefix):]:
                        chstats["wire_diffs"] += 1
                        if chstats["wire_diffs"] == 1:
                            broken.append("correspondence: channel hook bytes: implementation %s model %s%s" % (c[5][:300], cprefix, chm[i][:300]))
                            ctx.broken.append(broken[-1])
                    exp = ("ok %d %s %s %s %s" % (len(c[5][len(cprefix):]) // 2, c[2], c[3], c[4], " ".join(items))).strip()
                    if chm[len(chl) + i].strip() != exp:
                        chstats["read_diffs"] += 1
                        if chstats["read_diffs"] == 1:
                            broken.append("correspondence: channel unmarshal hook on the implementation's bytes: expected %s model %s" % (exp[:300], chm[len(chl) + i][:300]))
                            ctx.broken.append(broken[-1])
            stats["channel_hook"] = chstats
            ctx.say("channel hook: %r" % chstats)
            # corpus: minimised past failures, replayed on every run
            cdir = os.path.join(VERIF, "corpus/C09")
            for fn in sorted(os.listdir(cdir)) if os.path.isdir(cdir) else []:
                sc = json.load(open(os.path.join(cdir, fn)))
                if sc.get("kind") == "fdeep":
                    r0 = function_depth(ctx, hxc, None, guard, [], lo=sc["lo"], hi=sc["hi"])
                    violations += r0["violations"]
                    stats.setdefault("corpus", []).append({"scenario": fn, "rows": len(r0["rows"]), "violations": len(r0["violations"])})
            # recursion-depth boundary with a function at the bottom: marshal ok => unmarshal ok, and the model agrees on both
            fd = function_depth(ctx, hxc, exe, guard, code_cases)
            stats["function_depth_boundary"] = fd["rows"]
            violations += fd["violations"]
            for b in fd["broken"]:
                broken.append(b)
                ctx.broken.append(b)
        stats["code_graphs"] = cgstats
        ctx.say("code graphs: %r" % cgstats)

        # corpus: stand-alone janet scenarios (minimised past failures); each prints a last line starting with "ok" or "FAIL"
        cdir = os.path.join(VERIF, "corpus/C09")
        for fn in sorted(os.listdir(cdir)) if os.path.isdir(cdir) else []:
            sc = json.load(open(os.path.join(cdir, fn)))
            if sc.get("kind") == "janet":
                o, rc = run_janet_source(janet, sc["source"])
                stats.setdefault("corpus", []).append({"scenario": fn, "result": o[:80]})
                if not o.startswith("ok"):
                    violations.append((sc["signature"], {"kind": "janet", "source": sc["source"], "signature": sc["signature"], "scenario": fn},
                                       "%s: %s" % (fn, o[:300])))
        # (E2) code objects and abstract types, asm/disasm: behavioural comparison
        rounds = 10 if quick else 120
        cseeds = [ctx.rng.below(2**31 - 1) + 1 for _ in range(nproc)]
        def code(seed):
            rc, out, err = run_cmd([janet, os.path.join(H, "code.janet"), str(seed), str(rounds)], timeout=3000, env=ENV)
            return seed, rc, out.decode(errors="replace").splitlines(), err.decode(errors="replace")[-3000:]
        with cf.ThreadPoolExecutor(nproc) as ex:
            cres = list(ex.map(code, cseeds))
        cstats = {"scenarios": 0, "fail": 0, "by_kind": {}}
        p64 = []
        seen_sig = set()
        for seed, rc, out, err in cres:
            done = False
            for l in out:
                if l.startswith("push64 "):
                    p64.append(l.split())
                    continue
                if l.startswith("done "):
                    done = True
                    continue
                name, _, verdict = l.partition(" ")
                kind = name.split("/")[0]
                cstats["scenarios"] += 1
                cstats["by_kind"][kind] = cstats["by_kind"].get(kind, 0) + 1
                if verdict != "ok":
                    cstats["fail"] += 1
                    sig = "code:" + kind
                    mm = re.search(r"peg/compile '(.*)\)\) failed: \"invalid peg bytecode\"", verdict)
                    if mm and re.search(r"\((int|int-be|uint-be) ", mm.group(1)):
                        sig = "peg-readint-unmarshal-rejected"
                    if "original-remarshalled: marshal number" in verdict and " raised: " in verdict:
                        sig = "fiber-remarshal-malformed"      # marshalling changed the fiber (stale JANET_STACKFRAME_HASENV)
                    if sig not in seen_sig:
                        seen_sig.add(sig)
                        violations.append((sig, {"kind": "code", "code_seed": seed, "rounds": rounds, "scenario": name, "verdict": verdict},
                                           "%s: %s (code.janet %d %d)" % (name, verdict[:300], seed, rounds)))
            if rc != 0 or not done:
                violations.append(("code-harness-crash", {"kind": "code-crash", "code_seed": seed, "rounds": rounds, "rc": rc, "stderr": err, "last": out[-2:]},
                                   "code.janet %d %d crashed (rc=%r): %s" % (seed, rounds, rc, err[-300:])))
        # push64 as used by the int/u64 boxes on the wire: LB_ABSTRACT, symbol "core/u64", push64(value)
        if p64 and exe and lb:
            name = b"core/u64"
            prefix = bytes([lb["LB_ABSTRACT"], lb["LB_SYMBOL"], len(name)]).hex() + name.hex()
            mo = ctx.model(["push64 " + p[1] for p in p64], exe=exe)
            bad = [(p, m) for p, m in zip(p64, mo) if p[2] != prefix + m]
            if bad:
                broken.append("correspondence: wire format of int/u64 %s is %s, model says %s" % (bad[0][0][1], bad[0][0][2], prefix + bad[0][1]))
                ctx.broken.append(broken[-1])
            cstats["push64_wire_checked"] = len(p64)
        stats["code"] = cstats
        ctx.say("code objects: %r" % cstats)

    # (D5/E3) asm . disasm at operand level: driven by the generated opcode table
    astats = {}
    if janet:
        try:
            ctx.gen("Bytecode.lean", gen_bytecode.render(ctx.build.tree))
            acases, askipped = asm_cases(ctx.build.tree, not quick)
            hxa = ctx.build.harness("plain", "c09asmwords", [os.path.join(H, "asmwords.c")])
        except (ExtractError, BuildError) as e:
            acases, askipped, hxa = [], [], None
            broken.append("asm operand table / harness: %s" % str(e)[-400:])
            ctx.broken.append(broken[-1])
        ccases = compiled_cases(ctx, not quick) + param_cases(ctx, not quick)
        # corpus: minimised past failures of asm . disasm, run through the same pipeline on every run
        cdir = os.path.join(VERIF, "corpus/C09")
        for fn in sorted(os.listdir(cdir)) if os.path.isdir(cdir) else []:
            sc = json.load(open(os.path.join(cdir, fn)))
            if sc.get("kind") == "asm":
                ccases = [l for l in sc["lines"] if l not in ccases] + ccases
        if hxa:
            alines = [c["line"] for c in acases] + ccases
            chunks = [alines[i::nproc] for i in range(nproc)]
            def runa(ch):
                rc, out, err = run_cmd([hxa], input=("\n".join(ch) + "\n").encode(), timeout=900, env=ENV)
                return rc, out.decode(errors="replace").splitlines(), err.decode(errors="replace")[-2000:]
            with cf.ThreadPoolExecutor(nproc) as ex:
                ares = list(ex.map(runa, chunks))
            aout = {}
            adis = {}
            ahdr = {}
            for ch, (rc, out, err) in zip(chunks, ares):
                for l, o in zip(ch, out):
                    if " |D " in o:
                        o, _, adis[l] = o.partition(" |D ")
                    if " |H " in o:
                        o, _, h = o.partition(" |H ")
                        if o.startswith("err2"):
                            h, _, msg = h.partition(" | ")
                            o = o + " " + msg
                        ahdr[l] = h
                    aout[l] = o
                if rc != 0 or len(out) != len(ch):
                    bad = ch[len(out)] if len(out) < len(ch) else "?"
                    violations.append(("asm-harness-crash", {"kind": "asm", "line": bad[:2000], "rc": rc, "stderr": err},
                                       "asm/disasm harness crashed on %s" % bad[:200]))
            mlines = ["asmword %d %s" % (c["num"], " ".join(str(v) for v in c["args"])) for c in acases]
            mo = ctx.model(mlines, exe=exe) if exe else None
            astats = {"table_cases": len(acases), "compiled_cases": len(ccases), "opcodes": len(set(c["op"] for c in acases)),
                      "skipped_opcodes": askipped, "rejected_out_of_range": 0, "word_diffs": 0, "roundtrip_failures": 0}
            adiffs = []
            for k, c in enumerate(acases):
                o = aout.get(c["line"])
                if o is None:
                    continue
                mw = mo[k] if mo else None
                if o.startswith("ok "):
                    _, wf, wg = o.split(" ", 2)
                    word = dict(p.split(":") for p in wf.split("/")[0].split(";")[0].split(",") if ":" in p).get(str(c["pos"]), "00000000")
                    if wf != wg:
                        astats["roundtrip_failures"] += 1
                        violations.append(("asm-disasm-words:" + c["op"], {"kind": "asm", "line": c["line"][:3000], "instruction": c["instr"], "result": o[:600]},
                                           "(asm (disasm f)) has different bytecode than f for %s" % c["instr"]))
                    if not c["expect_ok"]:
                        violations.append(("asm-accepts-out-of-range:" + c["op"], {"kind": "asm", "line": c["line"][:3000], "instruction": c["instr"], "word": word},
                                           "assembler accepted out-of-range operand in %s and produced word %s" % (c["instr"], word)))
                    if mw is not None and mw != word:
                        astats["word_diffs"] += 1
                        adiffs.append({"instruction": c["instr"], "impl_word": word, "model": mw})
                else:
                    if c["expect_ok"]:
                        # an encodable operand was refused: (asm (disasm f)) cannot work for a function containing it
                        astats["roundtrip_failures"] += 1
                        violations.append(("asm-rejects-encodable-operand", {"kind": "asm", "line": c["line"][:3000], "instruction": c["instr"], "result": o[:400],
                                                                            "janet": "(asm {:slotcount 65536 :bytecode '[%s (retn)]})" % c["instr"]},
                                           "assembler refuses %s, an operand value the instruction word can hold: %s" % (c["instr"], o[:200])))
                    else:
                        astats["rejected_out_of_range"] += 1
                    if mw is not None and (mw != "err") != c["expect_ok"]:
                        adiffs.append({"instruction": c["instr"], "impl": o[:200], "model": mw})
            for l in ccases:
                o = aout.get(l)
                if o is None:
                    continue
                if o.startswith("ok "):
                    _, wf, wg = o.split(" ", 2)
                    if wf != wg:
                        astats["roundtrip_failures"] += 1
                        violations.append(("asm-disasm-words:compiled", {"kind": "asm", "line": l[:3000], "result": o[:600]},
                                           "(asm (disasm f)) has different bytecode than f for %s" % l[2:200]))
                elif o.startswith("err1"):
                    ctx.notes.append("asm generator: source does not compile: %s -> %s" % (l[:120], o[:120]))
                else:
                    astats["roundtrip_failures"] += 1
                    tag = "asm-disasm-raises" if o.startswith("err2") else "asm-disasm-behaviour"
                    violations.append((tag, {"kind": "asm", "line": l[:3000], "result": o[-600:], "janet": "(asm (disasm %s))" % l[2:3000]},
                                       "(asm (disasm f)) %s for f = %s: %s" % ("raises" if o.startswith("err2") else "behaves differently", l[2:160], o.split(" ", 2)[-1][-200:])))
            # funcdef level (Asm/Def.lean): the model's janet_verify vs the real one on every funcdef at a dozen slot counts; the
            # slot count the model's janet_asm1 computes vs the one (asm (disasm f)) has; model accepts <=> implementation accepts;
            # oracle without the model: every field janet_verify reads is the same in f and (asm (disasm f)), slot count aside
            dstats = {"funcdefs": 0, "verify_calls_compared": 0, "verify_codes": {}, "slotcount_equal": 0, "slotcount_smaller": 0, "slotcount_larger": 0,
                      "variadic": 0, "rest_slot_not_an_operand": 0, "with_symbolmap": 0, "nested": 0, "asm_rejected": 0, "param_cases": len([l for l in ccases if l.startswith("V ")])}
            dlines, dmeta = [], []
            try:
                ops_, types_, _ = gen_bytecode.extract(ctx.build.tree)
                ses_ops = set(num for (name, num), ty in zip(ops_, types_) if ty == "JINT_SES")
            except ExtractError:
                ses_ops = set()
            dstats["upvalue_operands_counted_in_ancestor"] = 0
            for l, h in sorted(ahdr.items()):
                o = aout.get(l, "")
                try:
                    if o.startswith("ok "):
                        _, wf, wg = o.split(" ", 2)
                        hf, hg = h.split(" ")
                        fds, gds = hdr_defs(wf, hf, ses_ops), hdr_defs(wg, hg, ses_ops)
                    elif o.startswith("err2 "):
                        fds, gds = hdr_defs(o.split(" ", 2)[1], h.strip(), ses_ops), None
                    else:
                        continue
                except ValueError as e:
                    adiffs.append({"case": l[:200], "why": "header line not understood: %s" % e})
                    continue
                if gds is not None and len(gds) != len(fds):
                    violations.append(("asm-disasm-defs", {"kind": "asm", "line": l[:3000], "result": o[:300]}, "(asm (disasm f)) has %d funcdefs, f has %d" % (len(gds), len(fds))))
                    continue
                for k, fd in enumerate(fds):
                    dstats["funcdefs"] += 1
                    dstats["nested"] += 1 if k else 0
                    dstats["variadic"] += fd["vararg"]
                    dstats["with_symbolmap"] += 1 if fd["syms"] else 0
                    dstats["upvalue_operands_counted_in_ancestor"] += len(fd["extra"])
                    gd = gds[k] if gds is not None else None
                    if gd is not None:
                        same = all(fd[x] == gd[x] for x in ("vararg", "structarg", "arity", "min", "max", "nconsts", "ndefs", "nenvs", "syms", "n"))
                        if not same:
                            violations.append(("asm-disasm-header", {"kind": "asm", "line": l[:3000], "original": {x: fd[x] for x in fd if x not in ("wmap", "codes")},
                                                                     "copy": {x: gd[x] for x in gd if x not in ("wmap", "codes")}},
                                               "(asm (disasm f)) differs from f in arity / flags / table lengths / symbol map for %s (funcdef %d)" % (l[2:160], k)))
                        dstats["slotcount_equal" if gd["slotcount"] == fd["slotcount"] else "slotcount_smaller" if gd["slotcount"] < fd["slotcount"] else "slotcount_larger"] += 1
                    else:
                        dstats["asm_rejected"] += 1 if k == 0 else 0
                    if fd["n"] <= 3000:
                        for sc, code in fd["codes"]:
                            dlines.append(asmdef_line(fd, sc))
                            dmeta.append((l, k, fd, gd, sc, code, gds is None))
                        for kind, kk, code in fd["variants"]:
                            dlines.append(asmdef_line(fd, fd["slotcount"], (kind, kk)))
                            dmeta.append((l, k, fd, None, "%s%d" % (kind, kk), code, False))
            dm = ctx.model(dlines, exe=exe) if exe and dlines else []
            rejected_by_model = {}
            for (l, k, fd, gd, sc, code, rejected), r in zip(dmeta, dm):
                parts = r.split()
                if len(parts) < 3:
                    adiffs.append({"case": l[:200], "funcdef": k, "model": r}); continue
                dstats["verify_calls_compared"] += 1
                dstats["verify_codes"][str(code)] = dstats["verify_codes"].get(str(code), 0) + 1
                if int(parts[0]) != code:
                    adiffs.append({"case": l[:200], "funcdef": k, "slotcount": sc, "janet_verify": code, "model_verify": int(parts[0])})
                if sc == fd["slotcount"]:
                    if fd["vararg"] and fd["slotcount"] == fd["arity"] + 1:
                        dstats["rest_slot_not_an_operand"] += 1
                    if gd is not None and (parts[2] != "ok" or int(parts[3]) != gd["slotcount"]):
                        adiffs.append({"case": l[:200], "funcdef": k, "slotcount_of_asm_disasm": gd["slotcount"], "model": r})
                    if rejected:
                        rejected_by_model[l] = rejected_by_model.get(l, False) or parts[2] == "err" or fd["walks_past_root"]
            for l, rj in rejected_by_model.items():
                if not rj:
                    adiffs.append({"case": l[:200], "why": "implementation rejects (asm (disasm f)), the model accepts every funcdef of f"})
            astats["funcdef_level"] = dstats
            # every instruction word the implementation produced (table cases and compiled functions, nested funcdefs included):
            # the model's encode (decode w) must give the word back - the statement of asm_disasm_instr on the real words
            words = set()
            for o in aout.values():
                if o.startswith("ok "):
                    words.update(re.findall(r":([0-9a-f]{8})", o.split(" ", 2)[1]))
            words = sorted(words)
            rm = ctx.model(["reasm " + w for w in words], exe=exe) if exe and words else []
            astats["distinct_words_reassembled_by_model"] = len(words)
            astats["opcodes_in_words"] = len(set(int(w, 16) & 0x7F for w in words))
            for w, r in zip(words, rm):
                if not r.startswith("ok " + w):
                    adiffs.append({"word": w, "model_encode_of_decode": r})
            # the disassembler itself: (disasm f :bytecode) of the implementation vs the model's `decode` of the same words
            try:
                _, _, mnem = gen_asm.extract(ctx.build.tree)
                ops_, _, _ = gen_bytecode.extract(ctx.build.tree)
                num_of_mnem = dict((mnem[name], num) for name, num in ops_ if name in mnem)
            except ExtractError:
                num_of_mnem = {}
            dec = dict((w, r.split(" ")[2:]) for w, r in zip(words, rm) if r.startswith("ok "))
            astats["instructions_disassembled_compared"] = 0
            for l, d in adis.items():
                o = aout.get(l, "")
                if not o.startswith("ok ") or not num_of_mnem:
                    continue
                top = o.split(" ", 2)[1].split("/")[0]
                body, _, n = top.partition(";n=")
                wmap = dict(p.split(":") for p in body.split(",") if ":" in p)
                instrs = d.split(";") if d else []
                if len(instrs) != int(n or 0):
                    adiffs.append({"case": l[:200], "why": "disasm length %d, bytecode length %s" % (len(instrs), n)})
                    continue
                for i, ins in enumerate(instrs):
                    w = wmap.get(str(i), "00000000")
                    parts = ins.lstrip("!").split(",")
                    exp = None if parts[0] == "raw" else [str(num_of_mnem.get(parts[0], -1))] + parts[1:]
                    got = dec.get(w) if w != "00000000" else ["0"]
                    if got is None and w not in dec:
                        continue            # word only present in a nested funcdef list
                    astats["instructions_disassembled_compared"] += 1
                    if exp != got or (ins.startswith("!") != bool(int(w, 16) & 0x80)):
                        adiffs.append({"word": w, "impl_disasm": ins, "model_decode": got})
                        break
            if adiffs:
                broken.append("correspondence model/impl on instruction words: %d differences, first %s" % (len(adiffs), json.dumps(adiffs[:3])[:600]))
                ctx.broken.append(broken[-1])
        stats["asm_operands"] = astats
        ctx.say("asm operands: %r" % {k: v for k, v in astats.items() if k != "skipped_opcodes"})

    # (E4) compiled PEGs: every combinator of peg_specials[], every opcode of the generated opcode table; fields that
    # peg_unmarshal recomputes (bytecode_len, num_constants, has_backref) read directly from original and copy
    pstats = {}
    if janet:
        import importlib.util
        spec = importlib.util.spec_from_file_location("c09_peggen", os.path.join(H, "peggen.py"))
        peggen = importlib.util.module_from_spec(spec)
        spec.loader.exec_module(peggen)
        try:
            pinfo = gen_peg.extract(ctx.build.tree)
            with open(os.path.join(ctx.build.tree, "src/core/peg.c"), encoding="utf-8", errors="replace") as f:
                pcases = peggen.cases(f.read(), ctx.rng.fork("peg"), 400 if quick else 8000)
            hxp = ctx.build.harness("plain", "c09pegfields", [os.path.join(H, "pegfields.c")])
        except (ExtractError, BuildError, ValueError) as e:
            pcases, hxp, pinfo = [], None, None
            broken.append("peg combinator / opcode table or harness: %s" % str(e)[-400:])
            ctx.broken.append(broken[-1])
        if hxp:
            chunks = [pcases[i::nproc] for i in range(nproc)]
            def runp(ch):
                rc, out, err = run_cmd([hxp], input=("\n".join(c[2] for c in ch) + "\n").encode(), timeout=900, env=ENV)
                return rc, out.decode(errors="replace").splitlines(), err.decode(errors="replace")[-2000:]
            with cf.ThreadPoolExecutor(nproc) as ex:
                pres = list(ex.map(runp, chunks))
            pstats = {"grammars": len(pcases), "ok": 0, "nocompile": 0, "failures": 0, "texts_matched": 0, "texts_failed": 0, "texts_raised": 0,
                      "with_backref_flag": 0}
            seen_ops = set()
            num2op = dict((v, k) for k, v in pinfo["ops"].items())
            for ch, (rc, out, err) in zip(chunks, pres):
                if rc != 0 or len(out) != len(ch):
                    bad = ch[len(out)][1] if len(out) < len(ch) else "?"
                    violations.append(("peg-harness-crash", {"kind": "peg", "grammar": bad, "rc": rc, "stderr": err}, "peg round trip harness crashed on %s" % bad[:200]))
                for (name, g, line), o in zip(ch, out):
                    if o.startswith("ok "):
                        pstats["ok"] += 1
                        m = dict(x.split("=", 1) for x in o.split()[1:])
                        pstats["texts_matched"] += int(m["succ"]); pstats["texts_failed"] += int(m["fail"]); pstats["texts_raised"] += int(m["err"])
                        pstats["with_backref_flag"] += int(m["hb"])
                        words = [int(m["words"][k:k + 8], 16) for k in range(0, len(m["words"]), 8)]
                        k = 0
                        while k < len(words):          # walk the bytecode with the generated instruction sizes
                            opn = num2op.get(words[k] & 0x7F)
                            if opn is None:
                                break
                            seen_ops.add(opn)
                            sz = pinfo["sizes"].get(opn, 0)
                            if sz == 0:
                                n1 = words[k + 1] if k + 1 < len(words) else 0
                                sz = 2 + ((n1 + 3) >> 2) if opn == "RULE_LITERAL" else 2 + n1
                            k += sz
                    elif o.startswith("nocompile"):
                        pstats["nocompile"] += 1
                        if name != "random":
                            ctx.notes.append("peg template for %s does not compile: %s -> %s" % (name, g, o[:100]))
                    else:
                        pstats["failures"] += 1
                        kindw = o.split()[0]
                        sig = {"roundtrip": "peg-unmarshal-fails", "field": "peg-recomputed-field:" + (o.split()[1] if len(o.split()) > 1 else "?"), "beh": "peg-behaviour"}.get(kindw, "peg")
                        violations.append((sig, {"kind": "peg", "grammar": g, "line": line, "result": o[:600],
                                                 "janet": "(def p (peg/compile '%s)) (def q (unmarshal (marshal p make-image-dict) load-image-dict))" % g},
                                           "compiled PEG %s does not survive marshal/unmarshal: %s" % (g[:160], o[:300])))
            missing_ops = sorted(set(pinfo["ops"]) - seen_ops)
            pstats["opcodes_seen"] = len(seen_ops)
            pstats["opcodes_missing"] = missing_ops
            if missing_ops:
                broken.append("peg opcodes of the generated table never marshalled by the generator: %s" % missing_ops)
                ctx.broken.append(broken[-1])
        stats["peg"] = pstats
        ctx.say("pegs: %r" % pstats)

    # (E1) direct oracle on the codec (independent of the model)
    swept = 0
    if hx:
        ranges = [(-70000, 70000), (2**31 - 70000, 2**31 - 1), (-2**31, -2**31 + 70000), (2**24 - 70000, 2**24 + 70000), (-2**24 - 70000, -2**24 + 70000)]
        if not quick or any("codec" in b or "readint" in b or "pushint" in b or "translator" in b for b in broken):
            step = 2**28
            ranges = [(lo, lo + step - 1) for lo in range(-2**31, 2**31, step)]
        def sweep(r):
            rc, out, err = run_cmd([hx], input=("sweep %d %d\n" % r).encode(), timeout=3000, env=ENV)
            return r, rc, out.decode().strip(), err.decode(errors="replace")[-1500:]
        with cf.ThreadPoolExecutor(16) as ex:
            res = list(ex.map(sweep, ranges))
        swept = sum(hi - lo + 1 for lo, hi in ranges)
        for r, rc, out, err in res:
            if rc != 0 or out != "ok":
                direct_fail = {"range": r, "rc": rc, "out": out, "stderr": err}
                break
        n64 = 200000 if quick else 20000000
        rc, out, err = run_cmd([hx], input=("sweep64 %d %d\n" % (ctx.rng.below(2**62), n64)).encode(), timeout=3000, env=ENV)
        if rc != 0 or out.decode().strip() != "ok":
            direct_fail = direct_fail or {"sweep64": out.decode().strip(), "rc": rc, "stderr": err.decode(errors="replace")[-1500:]}
        swept += n64
        if impl_out is not None:
            for l, a in zip(lines, impl_out):
                if l.startswith("push"):
                    continue
                h = l.split(" ", 1)[1] if " " in l else ""
                if a.startswith("ok"):
                    _, v, used = a.split()
                    if int(used) * 2 > len(h):
                        direct_fail = {"op": l, "impl": a, "why": "consumed more bytes than supplied"}
                        break
    found_any = False
    if direct_fail:
        found_any = True
        if "range" in direct_fail and direct_fail["out"].startswith("fail"):
            x = int(direct_fail["out"].split()[1])
            ctx.violation("codec-roundtrip", {"kind": "roundtrip", "input": x, "detail": direct_fail},
                          what="readint(pushint(%d)) != %d on the implementation" % (x, x))
        else:
            ctx.violation("codec-direct", {"kind": "direct", "detail": direct_fail}, what="integer codec oracle failed: %r" % (direct_fail,))
    seen = set()
    for sig, rep, what in violations:
        if sig in seen:
            continue
        seen.add(sig)
        found_any = True
        rep = dict(rep)
        if broken:
            rep["also_broken"] = broken
        ctx.violation(sig, rep, what=what)
    if broken and not found_any:
        ctx.violation("broken:" + broken[0][:80], {"kind": "broken-obligation", "broken": broken, "first_diffs": (diffs + gdiffs)[:5]}, found=False,
                      what="no longer shown to hold: " + "; ".join(broken)[:900])
    samples = lines[:2] + lines[len(ints):len(ints) + 2] + [("graph %s/%s %s | %s" % (c[0], c[1], c[4][:60], c[5][:100])) for c in graph_cases[20:24]]
    cov = {
        "evaluations": len(lines) + swept + 2 * gstats["cases"] + stats.get("damaged", {}).get("inputs", 0) + stats.get("code", {}).get("scenarios", 0)
                       + stats.get("asm_operands", {}).get("table_cases", 0) + stats.get("asm_operands", {}).get("compiled_cases", 0),
        "distinct_nontrivial": len(set(lines)) + len(set(c[5] for c in graph_cases)) + stats.get("code", {}).get("scenarios", 0),
        "rule": "ints: every width boundary +-3 and random magnitudes; u64: every 2^w +-2; byte strings: encodings, all truncations, every lead byte, random; "
                "graphs: random pools of up to 45 values of every data type with back edges through arrays, tables (keys, values, prototypes), "
                "tuples/structs reached through them, registry values, weak containers (+ 20 fixed scenarios per process); non-trivial = distinct protocol line / "
                "distinct graph description / scenario instance; direct sweep = readint(pushint x) over %d values" % swept,
        "samples": samples,
        "correspondence_lines": len(lines), "correspondence_diffs": len(diffs), "impl_roundtrip_swept": swept,
        "exhaustive_int32": swept >= 2**32,
        "graphs": gstats, **stats,
    }
    return ctx.finish("proof", cov, assumptions=[
        "pushint/readint/push64/read64 modelled with / and % for >> and & (translator checks each mask is 2^k-1)",
        "data graphs are presented to the model in reference-number order with immutable values identified up to janet `=` (harness/C09/graph.janet: describe); "
        "the description is compared byte for byte through `marshal` and value for value through `unmarshal`",
        "janet_asserttype on decoded prototypes, NaN-key filtering and weak-reference GC are not in the model",
        "functions / funcdefs / closure environments (detached, early-detach): proved on the model Marsh/Code.lean (byte-for-byte correspondence with real marshal); "
        "janet_verify, janet_asserttype, the lookup_defs_done test and fiber stack validation are outside that model",
        "fibers, PEGs, channels, int64 boxes, whole-function asm/disasm: tested behaviourally, not proved",
    ])


def replay(ctx, path):
    r = json.load(open(path))
    print(json.dumps(r, indent=1)[:3000])
    kind = r.get("kind")
    try:
        janet = ctx.build.variant("asan")["janet"]
    except BuildError:
        return run(ctx)
    if kind == "graph":
        rc, out, err = run_cmd([janet, os.path.join(H, "graph.janet"), "gen", str(r["gen_seed"]), str(r["per"]), "45"], timeout=3000, env=ENV)
        for l in out.decode(errors="replace").splitlines():
            p = l.split(" ", 4)
            if len(p) == 5 and int(p[0]) == r["index"]:
                print("replayed: case %s verdict %s" % (p[0], p[1]))
                if p[1] != "ok":
                    ctx.violation(r.get("signature", "graph-roundtrip"), r, what="still fails: " + p[1])
                return ctx.finish("proof", {"evaluations": 1, "distinct_nontrivial": 1, "rule": "replay", "samples": [l[:200]]})
    if kind == "asm" and r.get("line"):
        hxa = ctx.build.harness("plain", "c09asmwords", [os.path.join(H, "asmwords.c")])
        rc, out, err = run_cmd([hxa], input=(r["line"] + "\n").encode(), timeout=600, env=ENV)
        o = out.decode(errors="replace").strip()
        print("replayed:", o[:600])
        o = o.partition(" |D ")[0]
        if " |H " in o:
            o = o.partition(" |H ")[0] + (" " + o.partition(" |H ")[2].partition(" | ")[2] if o.startswith("err2") else "")
        parts = o.split(" ", 2)
        still = rc != 0 or (parts[0] != "ok") != (r.get("signature", "").startswith("asm-accepts")) or (parts[0] == "ok" and len(parts) == 3 and parts[1] != parts[2])
        if still:
            ctx.violation(r.get("signature", "asm"), r, what="still fails: " + o[:300])
        return ctx.finish("proof", {"evaluations": 1, "distinct_nontrivial": 1, "rule": "replay", "samples": [o[:200]]})
    if kind == "peg" and r.get("line"):
        hxp = ctx.build.harness("plain", "c09pegfields", [os.path.join(H, "pegfields.c")])
        rc, out, err = run_cmd([hxp], input=(r["line"] + "\n").encode(), timeout=600, env=ENV)
        o = out.decode(errors="replace").strip()
        print("replayed:", o[:600])
        if rc != 0 or not o.startswith("ok "):
            ctx.violation(r.get("signature", "peg"), r, what="still fails: " + o[:300])
        return ctx.finish("proof", {"evaluations": 1, "distinct_nontrivial": 1, "rule": "replay", "samples": [o[:200]]})
    if kind == "codegraph":
        hxc = ctx.build.harness("asan", "c09codedesc", [os.path.join(H, "codedesc.c")])
        rc, out, err = run_cmd([hxc, os.path.join(H, "codegraph.janet"), "gen", str(r["gen_seed"]), str(r["per"])], timeout=3000, env=ENV)
        for l in out.decode(errors="replace").splitlines():
            p = l.split(" ", 3)
            if len(p) >= 2 and p[0].isdigit() and int(p[0]) == r["index"]:
                print("replayed: case %s verdict %s" % (p[0], p[1]))
                if p[1] != "ok":
                    ctx.violation(r.get("signature", "codegraph-roundtrip"), r, what="still fails: " + p[1])
                return ctx.finish("proof", {"evaluations": 1, "distinct_nontrivial": 1, "rule": "replay", "samples": [l[:200]]})
    if kind == "chan" and r.get("line"):
        c = r["line"].split(" ")
        hxc = ctx.build.harness("asan", "c09codedesc", [os.path.join(H, "codedesc.c")])
        src = ("(def ch (ev/chan %s)) %s %s (def b (marshal ch)) (def c2 (unmarshal b)) (print (if (and (= (string (marshal c2)) (string b)) (= (ev/count c2) %d)) \"ok\" \"FAIL\"))"
               % (c[4], " ".join("(ev/give ch %s)" % x[1:] for x in c[6:] if x), "(ev/chan-close ch)" if c[3] == "1" else "", len([x for x in c[6:] if x])))
        janet = ctx.build.variant("asan")["janet"]
        rc, out, err = run_cmd([janet, "-e", src], timeout=600, env=ENV)
        o = out.decode(errors="replace").strip()
        print("replayed:", o, err.decode(errors="replace")[-300:])
        if rc != 0 or o != "ok":
            ctx.violation(r.get("signature", "channel-roundtrip"), r, what="still fails: " + o[:200])
        return ctx.finish("proof", {"evaluations": 1, "distinct_nontrivial": 1, "rule": "replay", "samples": [o[:200]]})
    if kind == "fdeep":
        hxc = ctx.build.harness("asan", "c09codedesc", [os.path.join(H, "codedesc.c")])
        fd = function_depth(ctx, hxc, None, 1024, [], lo=r["lo"], hi=r["hi"])
        print("replayed:", fd["rows"])
        for sig, rep, what in fd["violations"][:1]:
            ctx.violation(sig, rep, what="still fails: " + what)
        return ctx.finish("proof", {"evaluations": len(fd["rows"]), "distinct_nontrivial": len(fd["rows"]), "rule": "replay", "samples": [json.dumps(x) for x in fd["rows"][:3]]})
    if kind == "janet":
        o, rc = run_janet_source(janet, r["source"])
        print("replayed:", o[:400])
        if not o.startswith("ok"):
            ctx.violation(r.get("signature", "code"), r, what="still fails: " + o[:300])
        return ctx.finish("proof", {"evaluations": 1, "distinct_nontrivial": 1, "rule": "replay", "samples": [o[:200]]})
    if kind == "code":
        rc, out, err = run_cmd([janet, os.path.join(H, "code.janet"), str(r["code_seed"]), str(r["rounds"])], timeout=3000, env=ENV)
        for l in out.decode(errors="replace").splitlines():
            if l.startswith(r["scenario"] + " "):
                print("replayed:", l[:400])
                if not l.endswith(" ok"):
                    ctx.violation(r.get("signature", "code"), r, what="still fails: " + l[:300])
                return ctx.finish("proof", {"evaluations": 1, "distinct_nontrivial": 1, "rule": "replay", "samples": [l[:200]]})
    return run(ctx)
