"""C09 - marshal/unmarshal round trips.  Part 1 (template for all checks): integer codec.

Pipeline (DESIGN.md section 0):  regenerate Gen/Marsh.lean from the current marsh.c -> kernel re-checks
Props/C09 -> axiom audit -> correspondence model vs real pushint/readint (wrapper TU, ASan) -> direct
round-trip oracle on the implementation -> report.
"""
import os
from vlib.core import run_cmd, VERIF
from vlib.build import BuildError
from tools.gen import marsh as gen_marsh
from tools.gen.csrc import ExtractError

THEOREMS = [
    "JanetModel.Props.C09.readint_pushint",
    "JanetModel.Props.C09.pushint_length",
    "JanetModel.Props.C09.readint_consumes",
    "JanetModel.Props.C09.signExtMid_eq",
]
ENV = dict(os.environ, ASAN_OPTIONS="detect_leaks=0:abort_on_error=0", UBSAN_OPTIONS="print_stacktrace=1")


def int_cases(ctx, n_random):
    xs = set()
    for b in (0, 127, 128, 8191, 8192, -1, -8192, -8193, 2**15, 2**16, 2**23, 2**24, 2**31 - 1, -2**31, 2**13, 2**14, -2**14, 255, 256, -128, -129, -256):
        for d in range(-3, 4):
            if -2**31 <= b + d < 2**31:
                xs.add(b + d)
    for _ in range(n_random):
        w = ctx.rng.range(1, 31)
        v = ctx.rng.below(1 << w)
        xs.add(v if ctx.rng.chance(1, 2) else -v - 1)
    return sorted(xs)


def byte_cases(ctx, ints, n_random):
    """encodings, all their truncations, single-byte substitutions of the lead byte, random strings"""
    hs = set([""])
    import struct
    for x in ints[:: max(1, len(ints) // 400)]:
        if 0 <= x < 128:
            enc = bytes([x])
        elif -8192 <= x <= 8191:
            enc = bytes([((x >> 8) & 0x3F) | 0x80, x & 0xFF])
        else:
            enc = bytes([205]) + struct.pack(">i", x)
        for k in range(len(enc) + 1):
            hs.add(enc[:k].hex())
        hs.add((enc + b"\x07\x09").hex())
    for lead in range(256):
        hs.add(bytes([lead]).hex())
        hs.add(bytes([lead, 0xff, 0x00, 0x80, 0x7f, 0x01]).hex())
        hs.add(bytes([lead, 0x20]).hex())
    for _ in range(n_random):
        n = ctx.rng.range(1, 7)
        hs.add(bytes(ctx.rng.below(256) for _ in range(n)).hex())
    return sorted(hs)


def run(ctx):
    quick = ctx.tier == "quick"
    broken = []
    # (A) regenerate
    try:
        ctx.gen("Marsh.lean", gen_marsh.render(ctx.build.tree if ctx.build.boot() is None else ctx.build.tree))
    except ExtractError as e:
        broken.append("translator tools/gen/marsh.py: %s" % e)
        ctx.broken.append(broken[-1])
    except BuildError as e:
        ctx.violation("build-failed", {"kind": "build", "error": str(e)}, found=False, what="tree does not build")
        return ctx.finish("proof", {"evaluations": 0, "distinct_nontrivial": 0})
    # (B,C) kernel check + audit
    broken += ctx.obligations("JanetModel.Props.C09", THEOREMS)
    if not quick:
        ok, log = ctx.leanchecker("JanetModel.Props.C09")
        if not ok:
            broken.append("leanchecker JanetModel.Props.C09: " + log[-300:])
    # (D) correspondence
    exe = ctx.driver()
    try:
        hx = ctx.build.harness("asan", "c09codec", [os.path.join(VERIF, "harness/C09/codec.c")])
    except BuildError as e:
        hx = None
        broken.append("harness does not compile against the current tree: %s" % str(e)[-400:])
    ints = int_cases(ctx, 3000 if quick else 200000)
    hexes = byte_cases(ctx, ints, 2000 if quick else 100000)
    lines = ["pushint %d" % x for x in ints] + [("readint " + h).strip() for h in hexes]
    diffs = []
    impl_out = None
    if hx:
        rc, out, err = run_cmd([hx], input=("\n".join(lines) + "\n").encode(), timeout=600, env=ENV)
        impl_out = out.decode(errors="replace").splitlines()
        if rc != 0 or len(impl_out) != len(lines):
            # crash / sanitizer abort while decoding: find the line (bisect by running prefixes)
            lo, hi = 0, len(lines)
            while hi - lo > 1:
                mid = (lo + hi) // 2
                rc2, o2, e2 = run_cmd([hx], input=("\n".join(lines[lo:mid]) + "\n").encode(), timeout=600, env=ENV)
                if rc2 != 0:
                    hi = mid
                else:
                    lo = mid
            ctx.violation("codec-crash:" + lines[lo], {"kind": "crash", "op": lines[lo], "rc": rc, "stderr": err.decode(errors="replace")[-2000:]},
                          what="implementation crashed / sanitizer report on `%s`" % lines[lo])
            impl_out = None
    if exe and impl_out is not None:
        model_out = ctx.model(lines, exe=exe)
        for l, a, b in zip(lines, impl_out, model_out):
            if a != b:
                diffs.append({"op": l, "impl": a, "model": b})
        if diffs:
            broken.append("correspondence model/impl on integer codec: %d differing lines, first %r" % (len(diffs), diffs[0]))
            ctx.broken.append(broken[-1])
    # (E) direct oracle on the implementation (independent of the model)
    direct_fail = None
    if hx:
        ranges = [(-70000, 70000), (2**31 - 70000, 2**31 - 1), (-2**31, -2**31 + 70000), (2**24 - 70000, 2**24 + 70000), (-2**24 - 70000, -2**24 + 70000)]
        if not quick or broken:
            step = 2**28
            ranges = [(lo, lo + step - 1) for lo in range(-2**31, 2**31, step)]
        import concurrent.futures as cf
        def sweep(r):
            rc, out, err = run_cmd([hx], input=("sweep %d %d\n" % r).encode(), timeout=3000, env=ENV)
            return r, rc, out.decode().strip(), err.decode(errors="replace")[-1500:]
        with cf.ThreadPoolExecutor(16) as ex:
            res = list(ex.map(sweep, ranges))
        swept = sum(hi - lo + 1 for lo, hi in ranges)
        for r, rc, out, err in res:
            if rc != 0 or out != "ok":
                direct_fail = {"range": r, "rc": rc, "out": out, "stderr": err}
                break
        # decode side: every accepted byte string decodes to a value whose encoding is a prefix-compatible form; truncations must be rejected
        if impl_out is not None:
            for l, a in zip(lines, impl_out):
                if l.startswith("pushint"):
                    continue
                h = l[8:]
                if a.startswith("ok"):
                    _, v, used = a.split()
                    if int(used) * 2 > len(h):
                        direct_fail = {"op": l, "impl": a, "why": "consumed more bytes than supplied"}
                        break
    else:
        swept = 0
    if direct_fail:
        if "range" in direct_fail and direct_fail["out"].startswith("fail"):
            x = int(direct_fail["out"].split()[1])
            ctx.violation("codec-roundtrip", {"kind": "roundtrip", "input": x, "detail": direct_fail},
                          what="readint(pushint(%d)) != %d on the implementation" % (x, x))
        else:
            ctx.violation("codec-direct", {"kind": "direct", "detail": direct_fail}, what="integer codec oracle failed: %r" % (direct_fail,))
    elif broken:
        ctx.violation("broken:" + broken[0][:80], {"kind": "broken-obligation", "broken": broken, "first_diffs": diffs[:5]}, found=False,
                      what="no longer shown to hold: " + "; ".join(broken)[:600])
    cov = {
        "evaluations": len(lines) + swept,
        "distinct_nontrivial": len(set(lines)),
        "rule": "ints: every width boundary +-3 and random magnitudes; byte strings: encodings, all truncations, every lead byte, random; "
                "non-trivial = distinct protocol line; direct sweep = readint(pushint x) on the real functions over %d ints" % swept,
        "samples": lines[:3] + lines[len(ints):len(ints) + 3],
        "correspondence_lines": len(lines), "correspondence_diffs": len(diffs), "impl_roundtrip_swept": swept,
        "exhaustive": swept == 2**32,
    }
    return ctx.finish("proof", cov, assumptions=["pushint/readint modelled with / and % for >> and & (translator checks each mask is 2^k-1)",
                                                  "graph-level round trip: see DESIGN.md C09 (in progress)"])


def replay(ctx, path):
    import json
    r = json.load(open(path))
    print(json.dumps(r, indent=1)[:2000])
    return run(ctx)
