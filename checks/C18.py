"""C18 - sandboxed capabilities stay disabled for every function and thread.

(A) translator: LLVM IR of the bootstrapped amalgamation -> sliced interprocedural CFG + untrusted certificate
    (Gen/Sandbox.lean); Python mirror of the Lean checker names uncovered paths.
(B,C) kernel: Props/C18 (checker_sound for every graph, flags_monotone, and the per-run obligation gen_certOK).
(D) dynamic tie: harness/C18/sweep.c (link-time libc interposer reading janet_vm.sandbox_flags of the calling thread)
    runs harness/C18/sweep.janet: every function binding of the core environment x argument shapes x sandbox
    configuration x (same thread | ev/thread | ev/spawn-thread).  Observed sensitive calls must be predicted by the graph
    for that C function, and (E, the direct oracle) none may need a capability that is disabled in the thread's flag word.
    Flag word vs Lean model (driver jm_c18): random sandbox/spawn scenarios, flags only grow and are inherited.
(E') witness synthesis: an uncovered static path names its bindings; they are swept alone under the missing capability.
"""
import concurrent.futures as cf
import json
import os
import shutil
import tempfile

from vlib.core import run_cmd, VERIF
from vlib.build import BuildError
from tools.gen import sandbox as gen
from tools.gen.csrc import ExtractError

THEOREMS = [
    "JanetModel.Props.C18.flags_monotone",
    "JanetModel.Props.C18.spawn_inherits",
    "JanetModel.Props.C18.thread_keeps_parent_flags",
    "JanetModel.Props.C18.sandboxOp_guarded",
    "JanetModel.Props.C18.sandboxCfun_disables",
    "JanetModel.Props.C18.sandboxCfun_unknown",
    "JanetModel.Props.C18.interp_sound",
    "JanetModel.Props.C18.interp_sound_addr",
    "JanetModel.Props.C18.checker_sound",
    "JanetModel.Props.C18.checker_sound_entry",
    "JanetModel.Props.C18.gen_certOK",
    "JanetModel.Props.C18.gen_classified",
    "JanetModel.Props.C18.gen_fieldsOK",
    "JanetModel.Props.C18.upd_semantics",
    "JanetModel.Props.C18.gen_outParams",
    "JanetModel.Props.C18.stop_semantics",
    "JanetModel.Props.C18.gen_entriesCover",
    "JanetModel.Props.C18.gen_entries",
    "JanetModel.Props.C18.sandbox_enforced_addr",
    "JanetModel.Props.C18.gen_tables",
    "JanetModel.Props.C18.gen_keywords",
    "JanetModel.Props.C18.gen_threadStart",
    "JanetModel.Props.C18.gen_spawn_refines",
    "JanetModel.Props.C18.gen_mayGrow",
    "JanetModel.Props.C18.gen_sandboxShape",
    "JanetModel.Props.C18.benign_calls_keep_flags",
    "JanetModel.Props.C18.sandbox_enforced",
    "JanetModel.Props.C18.stays_enforced",
    "JanetModel.Props.C18.thread_enforced",
    "JanetModel.Props.C18.run_never_reenables",
    "JanetModel.Props.C18.sandbox_enforced_threads",
]
WRAPPED = ("remove unlink rmdir chdir opendir getenv unsetenv rename link symlink system mkdir chmod utime stat stat64 lstat "
           "lstat64 readlink realpath open open64 fopen fopen64 tmpfile tmpfile64 connect bind listen getaddrinfo fork execv "
           "execvp posix_spawn posix_spawnp setenv dlopen dlsym mmap64 mmap mprotect sigaction clock_gettime inotify_add_watch").split()
CAPS = {"sandbox": 1, "subprocess": 2, "net-connect": 4, "net-listen": 8, "ffi-define": 16, "fs-write": 32, "fs-read": 64,
        "hrtime": 128, "env": 256, "modules": 512, "fs-temp": 1024, "ffi-use": 2048, "ffi-jit": 4096, "signal": 8192}
CAPNAME = {v: k for k, v in CAPS.items()}
SWEEP = os.path.join(VERIF, "harness/C18/sweep.janet")
FLAGS = os.path.join(VERIF, "harness/C18/flags.janet")
ENV = dict(os.environ, C18_MARKER_VAR="set")


def capnames(mask):
    return "|".join(n for v, n in sorted(CAPNAME.items()) if mask & v) or "0"


def dyn_need(sens, binding, name, detail):
    """Requirement groups of one observed call (argument level - finer than the static table)."""
    F = CAPS
    d = dict(x.split("=", 1) for x in detail.split() if "=" in x)
    if name in ("open", "open64"):
        if detail.startswith("/dev/urandom"):
            return []
        acc = int(d.get("acc", 0))
        g = []
        if acc in (0, 2):
            g.append(F["fs-read"])
        if acc in (1, 2) or d.get("creat") == "1" or d.get("trunc") == "1":     # same rule as Cap.needOpen
            g.append(F["fs-write"])
        return g
    if name in ("fopen", "fopen64"):
        m = d.get("mode", "r")
        g = []
        # "w+" truncates/creates: nothing that existed before can be read through it, so it is a write-kind open only
        if "r" in m or ("a" in m and "+" in m):
            g.append(F["fs-read"])
        if "w" in m or "a" in m or "+" in m:
            g.append(F["fs-write"])
        return g
    if name in ("dlopen", "dlsym"):
        return [F["ffi-define"]] if binding.startswith("ffi/") else [F["modules"]]
    if name in ("getaddrinfo", "bind"):
        if binding == "net/connect":
            return [F["net-connect"]]
        if binding in ("net/listen", "net/server"):
            return [F["net-listen"]]
        return [F["net-connect"] | F["net-listen"]]
    if name == "clock_gettime":
        return [F["hrtime"]] if binding == "os/clock" else []       # elsewhere: the event loop's own deadline arithmetic
    if name in ("mmap", "mmap64", "mprotect"):
        return [F["ffi-jit"]] if int(d.get("prot", 0)) & 4 else []
    return list(sens.get(name, []))


def parse_log(path):
    recs = []
    if not os.path.exists(path):
        return recs
    with open(path, errors="replace") as f:
        for line in f:
            p = line.rstrip("\n").split("\t")
            if len(p) == 5:
                try:
                    recs.append((int(p[0]), p[1], int(p[2], 16), p[3], p[4]))
                except ValueError:
                    pass
    return recs


def run_config(hx, caps, mode, level, only, timeout, tag, shard=0, nshards=1):
    """Run one sweep configuration (restarting after crashes / hangs).  Returns dict(records, marks, crashes, hangs, done)."""
    base = tempfile.mkdtemp(prefix="c18-%s-" % tag, dir="/var/tmp")
    d = os.path.join(base, "d")
    os.makedirs(d)
    log = os.path.join(base, "log")
    start, crashes, hangs, done = 0, [], [], False
    try:
        for attempt in range(40):
            rc, out, err = run_cmd([hx, SWEEP, log, d, caps, mode, str(start), str(shard), str(nshards), level, only], timeout=timeout, env=ENV, cwd=d)
            recs = parse_log(log)
            if any(r[3] == "MARK" and r[4].startswith("END") for r in recs):
                done = True
                break
            last = max([r[0] for r in recs if r[3] == "MARK" and r[0] >= 0] or [start - 1])
            lastname = [r[4] for r in recs if r[3] == "MARK" and r[0] == last]
            (hangs if rc is None else crashes).append("%s (rc=%s)" % (lastname[-1] if lastname else "?", rc))
            if last + 1 <= start and attempt > 0 and not lastname:
                break
            start = last + 1
        recs = parse_log(log)
    finally:
        shutil.rmtree(base, ignore_errors=True)
    return dict(caps=caps, mode=mode, records=recs, crashes=crashes, hangs=hangs, done=done, dir=d)


def predicted_modes(M, C):
    """binding -> set of open(2) modes (projected on Cap.modeRelevant) the certificate allows at open-like calls of its C function"""
    per_fn = {}
    if C is None:
        return {}
    for n, (fn, op, succ) in enumerate(M.nodes):
        if op[0] == "libc" and op[2] in gen.OPEN_FLAGS_ARG:
            per_fn.setdefault(M.slice[fn], set()).update(m & gen.LO_KEEP for m, k in C.K[n])     # low half: open flags (high half: a tracked assert-mask variable)
    out = {}
    for jn, cfs in M.regs.items():
        for c in cfs:
            if c in per_fn:
                out.setdefault(jn, set()).update(per_fn[c])
    # fopen: modes certified where io.c checkflags hands back the parsed mode (JANET_FILE_* bits)
    ff = set()
    for n, (fn, op, succ) in enumerate(M.nodes):
        if op[0] == "libc" and op[2] == "janet-file-flags":
            ff.update(m for m, k in C.K[n])
    if ff:
        out["file/open#fopen"] = ff
    return out


DIST = {"calls_by_family": {}, "sensitive_by_call": {}, "sensitive_by_thread_mode": {}}


def _count(d, k, n=1):
    d[k] = d.get(k, 0) + n


KWMASK = dict(CAPS, fs=32 | 64 | 1024, net=4 | 8, ffi=16 | 2048 | 4096, all=0xFFFFFFFF, none=0)


def analyse(M, res, predicted, pmodes=None):
    """-> (violations, unpredicted, ncalls, nsens)"""
    viol, unpred = [], []
    # the capabilities this configuration disabled before the first marked call (and before any thread was started): the
    # reference of the direct oracle.  A thread that lost its parent's word runs with flags = 0 - its OS calls are escapes all the same.
    cfgmask = 0
    for c_ in res["caps"].split(","):
        cfgmask |= KWMASK.get(c_, 0)
    pmodes = pmodes or {}
    marks = {}
    ncalls = nsens = 0
    for mk, vm, flags, name, detail in res["records"]:
        if name == "MARK":
            if mk >= 0 and not detail.startswith("END"):
                marks[mk] = detail
                ncalls += 1
                fam = detail.split(" ")[0]
                _count(DIST["calls_by_family"], fam.split("/")[0] + "/" if "/" in fam else "(no prefix)")
            continue
        if mk < 0 or mk not in marks:
            continue
        parts = marks[mk].split(" ")
        binding, shape, kind = parts[0], parts[1], parts[2]
        if name in ("open", "open64") and kind == "c" and vm == "vm" and binding in pmodes:
            d = dict(x.split("=", 1) for x in detail.split() if "=" in x)
            md = int(d.get("acc", 0)) | (64 if d.get("creat") == "1" else 0) | (512 if d.get("trunc") == "1" else 0)
            if md not in pmodes[binding]:
                unpred.append(dict(binding=binding, call=name + " mode %d" % md, detail=detail.replace(res["dir"], "<dir>")))
        if name in ("fopen", "fopen64") and binding == "file/open" and kind == "c" and vm == "vm" and "file/open#fopen" in pmodes:
            ms = dict(x.split("=", 1) for x in detail.split() if "=" in x).get("mode", "")
            md = (1 if "w" in ms else 0) | (2 if "r" in ms else 0) | (4 if "a" in ms else 0) | (8 if "+" in ms else 0)
            if md not in pmodes["file/open#fopen"]:
                unpred.append(dict(binding=binding, call=name + " mode-bits %d" % md, detail=detail.replace(res["dir"], "<dir>")))
        groups = dyn_need(M.sens, binding, name, detail)
        if not groups:
            continue
        nsens += 1
        _count(DIST["sensitive_by_call"], name)
        _count(DIST["sensitive_by_thread_mode"], res["mode"])
        for g in groups:
            if g & ((flags | cfgmask) if vm == "vm" else flags) == g:     # "vm" = the sweeping thread (sweep.c logcall)
                viol.append(dict(binding=binding, shape=int(shape), call=name, detail=detail.replace(res["dir"], "<dir>"), flags=flags,
                                 disabled=capnames(g), thread=vm, caps=res["caps"], mode=res["mode"],
                                 **({"thread_lost_flags": capnames(cfgmask & ~flags & 0x3FFF)} if vm == "vm" and cfgmask & ~flags & 0x3FFF and g & flags != g else {})))
        if kind == "c" and vm == "vm" and res["mode"] == "same" and binding in predicted and name not in predicted[binding]:
            alias = {"open": "open64", "fopen": "fopen64", "stat": "stat64", "lstat": "lstat64", "tmpfile": "tmpfile64", "mmap": "mmap64"}
            if alias.get(name, name) not in predicted[binding]:
                unpred.append(dict(binding=binding, call=name, detail=detail.replace(res["dir"], "<dir>")))
    return viol, unpred, ncalls, nsens


def predicted_calls(M):
    """binding -> set of sensitive call names the graph predicts (reachable through call edges from its C function)"""
    callees = {}
    libc = {}
    for fn, op, succ in M.nodes:
        if op[0] == "call":
            callees.setdefault(fn, set()).add(op[1])
        elif op[0] == "libc":
            libc.setdefault(fn, set()).add(op[2])
    out = {}
    for jn, cfs in M.regs.items():
        s = set()
        for c in cfs:
            if c in M.fn_ids:
                seen, todo = set(), [M.fn_ids[c]]
                while todo:
                    f = todo.pop()
                    if f in seen:
                        continue
                    seen.add(f)
                    s |= libc.get(f, set())
                    todo += list(callees.get(f, ()))
        out[jn] = s
    return out


def flag_scenarios(ctx, hx, exe, n):
    """Random sandbox/spawn scenarios: implementation flag words vs the Lean model; monotonicity; inheritance."""
    diffs, lines, ran = [], [], 0
    rng = ctx.rng.fork("flags")
    base = tempfile.mkdtemp(prefix="c18-flags-", dir="/var/tmp")
    try:
        scen = []
        for k in range(n):
            def mask():
                m = 0
                for _ in range(rng.range(1, 3)):
                    m |= 1 << rng.below(14)
                if rng.chance(1, 6):
                    m |= 1
                return m
            pm = [mask() for _ in range(rng.range(1, 4))]
            cm = [mask() for _ in range(rng.range(0, 3))]
            si = rng.range(0, len(pm))
            scen.append((pm, si, cm, "thread" if k % 2 == 0 else "spawn-thread"))

        def one(s):
            pm, si, cm, mode = s
            rc, out, err = run_cmd([hx, FLAGS, os.path.join(base, "log"), base, ",".join(map(str, pm)), str(si), ",".join(map(str, cm)) or "-", mode],
                                   timeout=30, env=ENV, cwd=base)
            return s, rc, out.decode(errors="replace").split("\n")
        with cf.ThreadPoolExecutor(8) as ex:
            results = list(ex.map(one, scen))
        for (pm, si, cm, mode), rc, out in results:
            ran += 1
            # model: thread 0 = parent; spawn at index si; child ops after spawn (order between threads is irrelevant: separate words)
            ops = []
            for i, m in enumerate(pm):
                if i == si:
                    ops.append("t0")
                ops.append("s0:%d" % m)
            if si >= len(pm):
                ops.append("t0")
            model_parent, cur = [], 0
            # replay step by step with the driver to get every intermediate word
            steps = ["sandbox"]
            p_lines = [l for l in out if l.startswith("p ")]
            c_lines = [l for l in out if l.startswith("c ")]
            c0 = [l for l in out if l.startswith("c0 ")]
            pe = [l for l in out if l.startswith("pe ")]
            if rc != 0 or len(p_lines) != len(pm) or len(c_lines) != len(cm) or len(c0) != 1 or len(pe) != 1:
                diffs.append(dict(scenario=[pm, si, cm, mode], rc=rc, out=out[:12], why="unexpected output"))
                continue
            q = []
            cur = 0
            exp_p, exp_child0 = [], None
            for i, m in enumerate(pm):
                if i == si:
                    exp_child0 = ("cur", len(q))
                q.append(("p", m))
            lines_m = []
            # build driver lines sequentially using model outputs: do it in Python through the driver one scenario at a time
            def model_sandbox(fl, m):
                o = ctx.model(["sandbox %d %d" % (fl, m)], exe=exe)[0]
                return None if o == "none" else int(o.split()[1])
            fl = 0
            child0 = None
            okp = True
            for i, m in enumerate(pm):
                if i == si:
                    child0 = fl
                r = model_sandbox(fl, m)
                want = "p panic" if r is None else "p %d" % r
                if r is not None:
                    if r & fl != fl:
                        diffs.append(dict(scenario=[pm, si, cm, mode], why="model lost a bit"))
                    fl = r
                if p_lines[i].strip() != want:
                    okp = False
                    diffs.append(dict(scenario=[pm, si, cm, mode], step="parent %d" % i, impl=p_lines[i], model=want))
            if si >= len(pm):
                child0 = fl
            if c0[0].strip() != "c0 %d" % child0:
                diffs.append(dict(scenario=[pm, si, cm, mode], step="child start", impl=c0[0], model="c0 %d" % child0,
                                  why="thread does not start with its parent's flag word"))
            cfl = child0
            for i, m in enumerate(cm):
                r = model_sandbox(cfl, m)
                want = "c panic" if r is None else "c %d" % r
                if r is not None:
                    cfl = r
                if c_lines[i].strip() != want:
                    diffs.append(dict(scenario=[pm, si, cm, mode], step="child %d" % i, impl=c_lines[i], model=want))
            if pe[0].strip() != "pe %d" % fl:
                diffs.append(dict(scenario=[pm, si, cm, mode], step="parent end", impl=pe[0], model="pe %d" % fl))
    finally:
        shutil.rmtree(base, ignore_errors=True)
    return ran, diffs


KEYWORDS = ["all", "env", "ffi", "ffi-define", "ffi-jit", "ffi-use", "fs", "fs-read", "fs-temp", "fs-write", "hrtime", "modules", "net",
            "net-connect", "net-listen", "sandbox", "signal", "subprocess"]
KWSCRIPT = os.path.join(VERIF, "harness/C18/keywords.janet")


def keyword_scenarios(ctx, hx, exe, n):
    """(sandbox & keywords) - corelib.c janet_core_sandbox vs the Lean model sandboxCfun (driver kwseq): sequences of calls with
    single / composite / unknown keywords, each sequence in a fresh thread.  -> (ran, diffs, distribution)"""
    rng = ctx.rng.fork("keywords")
    scen = []
    dist = {"calls": 0, "unknown_keyword": 0, "composite": 0, "sandbox_cap": 0, "no_argument": 0}
    for _ in range(n):
        calls = []
        for _c in range(rng.range(1, 5)):
            ks = []
            for _k in range(rng.range(0, 4)):
                if rng.chance(1, 12):
                    ks.append(["bogus", "fs-", "FS", "net-connect "][rng.below(3)])
                    dist["unknown_keyword"] += 1
                else:
                    k = KEYWORDS[rng.below(len(KEYWORDS))]
                    if k == "all" and not rng.chance(1, 3):
                        k = "hrtime"
                    if k == "sandbox" and not rng.chance(1, 2):
                        k = "env"
                    ks.append(k)
                    dist["composite"] += k in ("all", "fs", "net", "ffi")
                    dist["sandbox_cap"] += k in ("all", "sandbox")
            dist["calls"] += 1
            dist["no_argument"] += not ks
            calls.append(",".join(ks) or "-")
        scen.append(";".join(calls))
    base = tempfile.mkdtemp(prefix="c18-kw-", dir="/var/tmp")
    diffs = []
    try:
        rc, out, err = run_cmd([hx, KWSCRIPT, os.path.join(base, "log"), base] + scen, timeout=120, env=ENV, cwd=base)
        lines = out.decode(errors="replace").split("\n")
    finally:
        shutil.rmtree(base, ignore_errors=True)
    impl = {}
    for l in lines:
        p = l.split(" ")
        if p[0] == "k" and len(p) >= 2:
            impl[int(p[1])] = " ".join(p[2:])
    model = ctx.model(["kwseq 0 " + s for s in scen], exe=exe)
    if rc != 0 or "main 0" not in lines:
        diffs.append(dict(why="keywords.janet failed", rc=rc, out=lines[:6], err=err.decode(errors="replace")[-300:]))
    for i, s in enumerate(scen):
        if impl.get(i) != model[i].strip():
            diffs.append(dict(scenario=s, impl=impl.get(i), model=model[i].strip()))
    return len(scen), diffs, dist


def janet_source(v):
    caps = " ".join(":" + c for c in v["caps"].split(","))
    return "(sandbox %s)  # then, in mode %s: call %s with argument shape #%d of harness/C18/sweep.janet" % (caps, v["mode"], v["binding"], v["shape"])


def run(ctx):
    quick = ctx.tier == "quick"
    broken = []
    M = C = None
    static_bad = []
    # (A) translator
    try:
        ctx.build.boot()
        M = gen.extract(ctx.build)
        C = gen.certify(M)
        static_bad = gen.check(M, C)
        ctx.gen("Sandbox.lean", gen.render(M, C))
        ctx.say("slice: %d functions, %d nodes, %d entry functions; python mirror: %d failing checks" % (len(M.slice), len(M.nodes), len(M.entry_fns), len(static_bad)))
    except ExtractError as e:
        broken.append("translator tools/gen/sandbox.py: %s" % e)
        ctx.broken.append(broken[-1])
    except BuildError as e:
        ctx.violation("build-failed", {"kind": "build", "error": str(e)}, found=False, what="tree does not build")
        return ctx.finish("proof", {"evaluations": 0, "distinct_nontrivial": 0})
    # (B,C) kernel
    broken += ctx.obligations("JanetModel.Props.C18", THEOREMS)
    ctx.say("obligations: %d theorems built and audited%s" % (len(THEOREMS), "" if not broken else "; BROKEN: " + "; ".join(broken)[:300]))
    if not quick:
        ok, log = ctx.leanchecker("JanetModel.Props.C18")
        if not ok:
            broken.append("leanchecker JanetModel.Props.C18: " + log[-300:])
    exe = ctx.driver()
    # harness
    try:
        hx = ctx.build.harness("plain", "c18sweep", [os.path.join(VERIF, "harness/C18/sweep.c")],
                               extra_ld=["-Wl," + ",".join("--wrap=" + w for w in WRAPPED)])
    except BuildError as e:
        hx = None
        broken.append("harness does not compile against the current tree: %s" % str(e)[-400:])
    if M is None:
        # minimal tables for the dynamic part
        M = gen.Model()
        M.sens = gen.cap_tables()[0]
        M.regs, M.nodes, M.fn_ids = {}, [], {}
    predicted = predicted_calls(M) if M.nodes else {}
    pmodes = predicted_modes(M, C) if M.nodes else {}
    reported = set()
    witnesses = []

    def report(v):
        sig = "escape:%s:%s:%s" % (v["binding"], v["call"], v["disabled"])
        if sig in reported:
            return
        reported.add(sig)
        witnesses.append(v)
        ctx.violation(sig, {"kind": "sandbox-escape", "janet": janet_source(v), "observed": v,
                            "expected": "error 'operation forbidden by sandbox' before any %s" % v["call"]},
                      what="(sandbox %s) then %s performs %s %s [%s thread, flag word %#x]" % (v["caps"], v["binding"], v["call"], v["detail"], v["mode"], v["flags"]))
    # (E') witness synthesis for statically uncovered calls
    unc = gen.uncovered_entries(M, C, static_bad) if C is not None else []
    unconfirmed = []
    if hx:
        for u in unc:
            caps = ",".join(CAPNAME[b] for b in sorted(CAPNAME) if u["need"] & b)
            found = False
            if u["bindings"]:
                names = ",".join(b for b in u["bindings"] if not b.startswith("method"))
                res = run_config(hx, caps, "same", "full", names, 120, "wit")
                vs, _, _, _ = analyse(M, res, {})
                for v in vs:
                    same = (u["call"], u["call"].replace("64", "")) if u["call"] != "janet-file-flags" else ("fopen", "fopen64")
                    if v["call"] in same:
                        v["static"] = dict(function=u["fn"], call=u["call"], needs=capnames(u["need"]), entries=u["entries"])
                        report(v)
                        found = True
                        break
            if not found:
                unconfirmed.append(u)
    # (D,E) sweep
    total_calls = total_sens = 0
    unpredicted, crashes, hangs, incomplete = [], [], [], []
    configs = []
    if hx:
        singles = list(CAPS)
        tmodes = ["thread", "spawn-thread"]
        # every capability (and :all) x (calling thread | ev/thread | ev/spawn-thread = the :n path).  Quick tier: every
        # argument shape for the OS-facing bindings, two shapes for the rest; thorough: the full shape matrix for every
        # binding plus the composite keywords.
        for c in singles + ["all"] + ([] if quick else ["fs", "net", "ffi", "subprocess,env", "fs-write,fs-temp"]):
            for t in ["same"] + tmodes:
                configs.append((c, t))
        level = "quick" if quick else "full"

        NSH = 3 if quick else 8      # the sweep mostly waits for the event loop: run more processes than cores

        def go(job):
            cfg, sh = job
            return run_config(hx, cfg[0], cfg[1], level, "*", 150 if quick else 900, cfg[0] + "-" + cfg[1], sh, NSH)
        with cf.ThreadPoolExecutor(24) as ex:
            results = list(ex.map(go, [(c, sh) for c in configs for sh in range(NSH)]))
        for res in results:
            vs, up, nc, ns = analyse(M, res, predicted, pmodes)
            total_calls += nc
            total_sens += ns
            for v in vs:
                report(v)
            unpredicted += up
            crashes += ["%s/%s: %s" % (res["caps"], res["mode"], c) for c in res["crashes"]]
            hangs += ["%s/%s: %s" % (res["caps"], res["mode"], c) for c in res["hangs"]]
            if not res["done"]:
                incomplete.append("%s/%s" % (res["caps"], res["mode"]))
        ctx.say("sweep: %d configurations, %d calls, %d sensitive OS calls observed, %d escapes, %d unpredicted, %d crashes, %d hangs" %
                (len(configs), total_calls, total_sens, len(witnesses), len(unpredicted), len(crashes), len(hangs)))
        incomplete = sorted(set(incomplete))
        if incomplete:
            broken.append("dynamic sweep incomplete for configurations %s" % incomplete[:6])
        ups = sorted(set("%s->%s" % (u["binding"], u["call"]) for u in unpredicted))
        if ups:
            broken.append("slice validation: OS calls observed but not predicted by the graph: %s" % ups[:10])
            ctx.broken.append(broken[-1])
    # flag word vs model
    nscen, fdiffs = 0, []
    if hx and exe:
        nscen, fdiffs = flag_scenarios(ctx, hx, exe, 24 if quick else 200)
        for dff in fdiffs[:3]:
            ctx.violation("flags:" + str(dff.get("step", dff.get("why", "")))[:40], {"kind": "flag-word", "detail": dff, "janet": "harness/C18/flags.janet " + json.dumps(dff.get("scenario"))},
                          what="sandbox flag word differs from the model / is not inherited: %r" % (dff,))
    nkw, kwdiffs, kwdist = 0, [], {}
    if hx and exe:
        nkw, kwdiffs, kwdist = keyword_scenarios(ctx, hx, exe, 60 if quick else 600)
        ctx.say("keyword scenarios: %d sequences (%s), %d differ from sandboxCfun" % (nkw, kwdist, len(kwdiffs)))
        for dff in kwdiffs[:3]:
            ctx.violation("keywords:" + str(dff.get("scenario", dff.get("why", "")))[:40], {"kind": "sandbox-keywords", "detail": dff,
                          "janet": "in a fresh thread: " + " ".join("(sandbox %s)" % " ".join(":" + k for k in c.split(",") if k != "-") for c in str(dff.get("scenario", "")).split(";"))},
                          what="(sandbox & keywords) leaves a flag word that differs from the model sandboxCfun over sandbox_options[]: %r" % (dff,))
    fdiffs = fdiffs + kwdiffs
    # broken obligations without a confirmed failing input
    for u in unconfirmed:
        ctx.violation("uncovered:%s:%s" % (u["fn"], u["call"]), {"kind": "uncovered-path", "theorem": "JanetModel.Props.C18.gen_certOK", "row": {k: u[k] for k in ("fn", "call", "need", "entries", "bindings", "src")}},
                      found=False, what="%s reaches %s (tracked mode %s, asserted mask variable %s, guard variables %s) without asserting %s (entries %s); the sweep could not trigger it" % (
                          u["fn"], u["call"], u.get("mode"), capnames(u.get("asserted_mask", 0)),
                          [(u.get("guards", 0) >> (8 * k)) & 255 for k in range(gen.MAX_GUARDS)], capnames(u["need"]), u["entries"][:4]))
    if broken and not witnesses and not unconfirmed and not fdiffs:
        ctx.violation("broken:" + broken[0][:80], {"kind": "broken-obligation", "broken": broken}, found=False,
                      what="no longer shown to hold: " + "; ".join(broken)[:600])
    cov = {
        "evaluations": total_calls + nscen + nkw,
        "distinct_nontrivial": total_sens,
        "rule": "one evaluation = one call of a core binding with one argument shape under one sandbox configuration and thread mode "
                "(+ one flag-word scenario); non-trivial = the call reached a sensitive OS-level call (observed by the interposer)",
        "samples": ["(sandbox :fs-write) (os/rm <dir>/m.txt)", "(sandbox :fs-read) then ev/thread: (os/readlink <dir>/ml)",
                    "(sandbox :all) (net/connect \"127.0.0.1\" \"1\")"],
        "configurations": ["%s/%s" % c for c in configs],
        "static": {"slice_functions": len(getattr(M, "slice", [])), "nodes": len(M.nodes), "entry_functions": len(getattr(M, "entry_fns", [])),
                   "mirror_failures": [dict((k, b[k]) for k in b if k in ("kind", "fn", "call", "need")) for b in static_bad][:10],
                   "flag_writes": getattr(M, "flag_writes", None), "open_flags_tracked": getattr(M, "mode_tracked", None), "open_flags_untracked": getattr(M, "mode_untracked", None), "may_grow_functions": len(getattr(M, "may_grow", []))},
        "sensitive_calls_observed": total_sens, "unpredicted": unpredicted[:10], "crashes": crashes[:20], "hangs": hangs[:20],
        "flag_scenarios": nscen, "flag_scenario_diffs": len(fdiffs), "escapes": witnesses[:10],
        "input_distribution": {k: dict(sorted(v.items(), key=lambda kv: -kv[1])[:40]) for k, v in DIST.items() if v},
        "keyword_scenarios": nkw, "keyword_scenario_distribution": kwdist, "keyword_scenario_diffs": len(kwdiffs),
    }
    return ctx.finish("proof", cov, assumptions=[
        "LLVM IR at -O0 is a faithful account of the C call structure; indirect calls and calls of functions that may reach janet_sandbox are modelled as `havoc` (flag word may grow) and their targets are entry points themselves",
        "the set `mayGrow` of functions that may change the flag word is an untrusted summary checked by gen_mayGrow (closed under the transcribed direct-call edges and type-compatible indirect-call edges; contains every flag writer; excludes every callee the slice treats as no event); the edge list itself and LLVM-type compatibility of indirect calls are trusted transcription",
        "Cap.lean: which OS call needs which capability; exemptions ts_now/clock_gettime, janet_cryptorand/open(/dev/urandom), os_execute_impl/environ; operations on handles that already exist (accept, read, write, waitpid, kill) are not acquisitions",
        "open(2): the flags variable is tracked statically (access mode, O_CREAT, O_TRUNC; Linux constants in Cap.lean) and the matching capability is required per path; the sweep checks that observed modes are among the certified ones",
        "fopen: io.c checkflags' result variable (JANET_FILE_* bits) is tracked statically and the matching capability is required where it is handed back (w+ = write-kind, a+ = read and write); that libc parses the same string the same way is trusted and compared with observed mode strings",
        "argument-dependent calls: dlopen/dlsym/getaddrinfo/bind require the capability of the enclosing C function's role (Cap.siteRole, reviewed table; an unlisted site must have asserted every candidate), janet_get_addrinfo's getaddrinfo follows its constant `passive` argument (Op.call g m0); the sweep checks the same per observed call by binding",
        "havoc nodes = interpreter runs (Ex in Model.lean): indirect calls reach only address-taken functions (C semantics, trusted); those inside the slice are entry points (gen_entries: independent scan of the IR text vs the checked entry list, kernel-evaluated; sandbox_enforced_addr is stated for the entry list defined from that scan); those outside reach sensitive calls only through further indirect calls or janet_sandbox",
        "a janet_sandbox_assert argument that is a local built from constants / `p ? A : B` / the parameter of an assert-forwarding helper whose call sites all pass constants is tracked (assertMd, modeUpd, modeGuard, one graph function per constant); any other non-constant argument is an ExtractError (broken tie)",
        "guard variables: an int local that is only ever assigned constants 0..255 (address never used otherwise) and decides a conditional branch gets a bit field of the activation's word; each branch edge is a modeTest node; the transcription of these stores and branches is trusted like the rest of the graph; at most 4 per function, further ones are not tracked (every path possible)",
        "a setjmp call inside the slice is a havoc node (nothing known before is kept when it returns again); a function that calls setjmp and has a tracked variable is an ExtractError",
        "data-flow shape of janet_sandbox / janet_core_sandbox is regenerated (gen_sandboxShape); WHICH table entry a keyword selects (first match by name) is tied by the keyword scenarios only",
        "thread start: the regenerated shape (gen_threadStart) says every hand-over of janet_go_thread_subr passes the current flag word and the new thread stores it after janet_init; pthread scheduling and the message copy in janet_ev_threaded_call are trusted",
        "sandboxCfun is a hand-written model of corelib.c janet_core_sandbox; tie = regenerated sandbox_options[] (gen_tables) + keyword-sequence scenarios vs driver kwseq",
    ])


def replay(ctx, path):
    """A sandbox escape is re-executed alone: the named binding, under the recorded capability set and thread mode, every
    argument shape; reported again (same signature) when the same OS call is still performed with the capability disabled.
    Any other record (flag word / keyword difference, uncovered path, broken obligation) re-runs the whole check."""
    r = json.load(open(path))
    print(json.dumps(r, indent=1)[:3000])
    if r.get("kind") != "sandbox-escape" or not isinstance(r.get("observed"), dict):
        return run(ctx)
    v0 = r["observed"]
    try:
        ctx.build.boot()
        hx = ctx.build.harness("plain", "c18sweep", [os.path.join(VERIF, "harness/C18/sweep.c")],
                               extra_ld=["-Wl," + ",".join("--wrap=" + w for w in WRAPPED)])
    except BuildError as e:
        ctx.violation("build-failed", {"kind": "build", "error": str(e)}, found=False, what="tree does not build")
        return ctx.finish("proof", {"evaluations": 0, "distinct_nontrivial": 0})
    M = gen.Model()
    M.sens = gen.cap_tables()[0]
    res = run_config(hx, v0["caps"], v0["mode"], "full", v0["binding"], 120, "replay")
    vs, _, ncalls, nsens = analyse(M, res, {})
    same = [v for v in vs if v["binding"] == v0["binding"] and v["call"] == v0["call"] and v["disabled"] == v0["disabled"]]
    ctx.say("replay: (sandbox %s), %s thread, %s: %d calls, %d sensitive OS calls, %d escapes of which %d are the recorded one" %
            (v0["caps"], v0["mode"], v0["binding"], ncalls, nsens, len(vs), len(same)))
    for v in same[:1]:
        ctx.violation(r.get("signature", "escape:%s:%s:%s" % (v["binding"], v["call"], v["disabled"])),
                      {"kind": "sandbox-escape", "janet": janet_source(v), "observed": v, "expected": r.get("expected")},
                      what="(sandbox %s) then %s performs %s %s [%s thread, flag word %#x]" % (v["caps"], v["binding"], v["call"], v["detail"], v["mode"], v["flags"]))
    return ctx.finish("proof", {"evaluations": ncalls, "distinct_nontrivial": nsens,
                                "rule": "replay of one recorded escape: the binding alone, every argument shape, recorded capability set and thread mode",
                                "samples": [janet_source(v0)]})
