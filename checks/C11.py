"""C11 - parser output depends only on the bytes; data prints and parses back.

Pipeline (DESIGN.md section 0):
  (B,C) kernel re-check of Props/C11 (consume_total, chunk_independent, clone_independent, status_produce_pure,
        position_function_of_bytes, escape_roundtrip, jdn_roundtrip_partial ...) + axiom audit
  (D)   correspondence: the real parser API (wrapper TU around the current parse.c, ASan) and the compiled Lean model
        jm_c11 run the same (bytes, schedule) cases and must print the same canonical line: produced values with
        source-map positions, errors, parser/where, parser/status, parser/state frames, and the internal struct
        fields (lookback, flag, every state frame, buffer); same for the %j printer on value terms
  (E)   direct oracle on the implementation only: all chunkings / clone continuations / query interleavings of the
        same bytes give identical values, errors and positions; no crash / sanitizer report; the error latch survives
        queries; corpus scenarios give their recorded results; (parse (string/format "%j" v)) deep= v.
"""
import concurrent.futures as cf
import collections
import importlib.util
import json
import os

from vlib.core import run_cmd, VERIF
from vlib.build import BuildError
from tools.gen import parse as gen_parse
from tools.gen.csrc import ExtractError

_spec = importlib.util.spec_from_file_location("c11gen", os.path.join(VERIF, "harness/C11/gen.py"))
G = importlib.util.module_from_spec(_spec)
_spec.loader.exec_module(G)

THEOREMS = [
    "JanetModel.Props.C11.consume_total",
    "JanetModel.Props.C11.chunk_independent",
    "JanetModel.Props.C11.chunk_independent_events",
    "JanetModel.Props.C11.chunk_independent_many",
    "JanetModel.Props.C11.clone_independent",
    "JanetModel.Props.C11.clone_copies_every_field",
    "JanetModel.Props.C11.status_produce_pure",
    "JanetModel.Props.C11.status_produce_pure_from",
    "JanetModel.Props.C11.wf_reachable",
    "JanetModel.Props.C11.frames_in_bounds_reachable",
    "JanetModel.Props.C11.produce_touches_only_queue",
    "JanetModel.Props.C11.flush_frames_in_bounds",
    "JanetModel.Props.C11.takeError_frames_in_bounds",
    "JanetModel.Props.C11.position_function_of_bytes",
    "JanetModel.Props.C11.position_independent_of_scan",
    "JanetModel.Props.C11.escape_roundtrip",
    "JanetModel.Props.C11.stringend_reads_in_bounds",
    "JanetModel.Props.C11.escape_roundtrip_buffer",
    "JanetModel.Props.C11.jdn_roundtrip_string",
    "JanetModel.Props.C11.jdn_roundtrip_buffer",
    "JanetModel.Props.C11.jdn_roundtrip_keyword",
    "JanetModel.Props.C11.jdn_roundtrip_symbol",
    "JanetModel.Props.C11.jdn_roundtrip_const",
    "JanetModel.Props.C11.jdn_roundtrip_number",
    "JanetModel.Props.C11.jdn_roundtrip",
    "JanetModel.Props.C11.jdn_roundtrip_chunked",
    "JanetModel.Props.C11.jdn_roundtrip_nested",
    "JanetModel.Props.C11.eatP_is_consume",
    "JanetModel.Props.C11.keq_ignores_source_maps",
    "JanetModel.Props.C11.jdn_printer_shape",
    "JanetModel.Props.C11.insert_preserves_wf",
    "JanetModel.Props.C11.wf_reachable_with_insert",
    "JanetModel.Props.C11.status_produce_pure_with_insert",
    "JanetModel.Props.C11.error_latch",
    "JanetModel.Props.C11.dead_latch",
    "JanetModel.Props.C11.latch_release",
    "JanetModel.Props.C11.eof_after_any_bytes",
    "JanetModel.Props.C11.eof_outcome_any",
    "JanetModel.Props.C11.eof_clean_or_innermost",
    "JanetModel.Props.C11.finish_drains",
    "JanetModel.Props.C11.phys_push_in_block",
    "JanetModel.Props.C11.phys_step_refines",
    "JanetModel.Props.C11.phys_step_safe",
    "JanetModel.Props.C11.phys_feed_safe",
    "JanetModel.Props.C11.phys_parseAll_safe",
    "JanetModel.Props.C11.phys_history_safe",
    "JanetModel.Props.C11.token_scratch_nonempty",
    "JanetModel.Props.C11.phys_machine_source_ops",
    "JanetModel.Props.C11.phys_state_query_safe",
    "JanetModel.Props.C11.phys_clone_safe",
    "JanetModel.Props.C11.phys_insert_safe",
    "JanetModel.Props.C11.phys_api_history_safe",
    "JanetModel.Props.C11.stringend_rewrite_fits",
    "JanetModel.Props.C11.stringend_loops_index_safe",
    "JanetModel.Props.C11.stringend_rewrite_in_place",
    "JanetModel.Props.C11.stringend_loop_source_ops",
    "JanetModel.Props.C11.generated_error_flag_iff",
    "JanetModel.Props.C11.generated_error_marked",
    "JanetModel.Props.C11.consumer_error_flag_discipline",
    "JanetModel.Props.C11.generated_message_not_static",
    "JanetModel.Props.C11.err_flag_source_sites",
    "JanetModel.Props.C11.stack_push_in_bounds",
    "JanetModel.Props.C11.capacity_invariant",
    "JanetModel.Props.C11.consume_capacity",
    "JanetModel.Props.C11.state_query_scratch_in_bounds",
]
ENV = dict(os.environ, ASAN_OPTIONS="detect_leaks=0:abort_on_error=0", UBSAN_OPTIONS="print_stacktrace=1")
BAD_MARKS = ("LATCH-MOVED", "PANIC", "SECOND-ERROR", "BADCOUNT", "SHORT", "NOTNIL", "BADWRAP", "NOT-A-STRING", "BADOP", "bad-op")
CORPUS = os.path.join(VERIF, "corpus/C11/scenarios.txt")
JOBS = 12


# ------------------------------------------------------------------------------------------ running the harness
def _run_block(hx, lines):
    rc, out, err = run_cmd([hx], input=("\n".join(lines) + "\n").encode(), timeout=900, env=ENV)
    outl = out.decode(errors="replace").splitlines()
    e = err.decode(errors="replace")
    return rc, outl, e if len(e) < 6000 else e[:4000] + "\n...\n" + e[-1500:]


def _run_block_resilient(hx, blk):
    """run a block; a line that kills the harness gets output "CRASH" and is recorded; the rest of the block is still run"""
    outs, crashes = [], []
    rest = blk
    while rest:
        rc, outl, err = _run_block(hx, rest)
        if rc == 0 and len(outl) == len(rest):
            outs += outl
            break
        # the harness flushes after every line: the first missing output is the culprit
        idx = min(len(outl), len(rest) - 1)
        outs += outl[:idx] + ["CRASH"]
        rc2, o2, e2 = _run_block(hx, [rest[idx]])
        if rc2 == 0 and len(o2) == 1:
            crashes.append({"lines": rest[max(0, idx - 50):idx + 1], "rc": rc, "stderr": err, "needs_history": True})
        else:
            crashes.append({"lines": [rest[idx]], "rc": rc2, "stderr": e2})
        rest = rest[idx + 1:]
        if len(crashes) >= 2:
            outs += ["CRASH"] * len(rest)
            break
    return outs, crashes


def run_harness(hx, lines):
    """returns (outputs, crashes); outputs[i] == "CRASH" for a line that killed the harness (crash / sanitizer abort / timeout)"""
    if not lines:
        return [], []
    nblk = min(JOBS, max(1, len(lines) // 200))
    size = (len(lines) + nblk - 1) // nblk
    blocks = [lines[i:i + size] for i in range(0, len(lines), size)]
    with cf.ThreadPoolExecutor(JOBS) as ex:
        res = list(ex.map(lambda b: _run_block_resilient(hx, b), blocks))
    outs, crashes = [], []
    for o, c in res:
        outs += o
        crashes += c
    return outs, crashes


def crash_signature(stderr):
    """stable signature of a sanitizer report: error kind + innermost frame inside parse.c / pp.c"""
    import re
    kind = "crash"
    m = re.search(r"ERROR: AddressSanitizer: ([\w-]+)", stderr)
    if m:
        kind = m.group(1)
    else:
        m = re.search(r"runtime error: ([^\n]{0,60})", stderr)
        if m:
            kind = "ubsan:" + re.sub(r"0x[0-9a-f]+|\d+", "N", m.group(1)).strip().replace(" ", "-")
    fn = ""
    for m in re.finditer(r"#\d+ 0x[0-9a-f]+ in (\w+) [^\n]*/src/core/(parse|pp|strtod)\.c", stderr):
        fn = m.group(1)
        break
    return "%s@%s" % (kind, fn or "?")


def minimise_crash(hx, line):
    """greedy removal of schedule ops, then of text bytes from the end, keeping the crash"""
    parts = line.split(" ")
    if len(parts) != 3 or parts[0] != "case":
        return line

    def crashes(l):
        rc, o, e = _run_block(hx, [l])
        return rc != 0 or len(o) != 1
    ops = parts[2].split(",")
    i = 0
    while i < len(ops) and len(ops) > 1:
        cand = ops[:i] + ops[i + 1:]
        if crashes("case %s %s" % (parts[1], ",".join(cand))):
            ops = cand
        else:
            i += 1
    return "case %s %s" % (parts[1], ",".join(ops))


def report_crashes(ctx, hx, crashes, what):
    seen = set()
    for c in crashes:
        sig = "crash:" + crash_signature(c["stderr"])
        if sig in seen:
            continue
        seen.add(sig)
        lines = c["lines"]
        if len(lines) == 1:
            lines = [minimise_crash(hx, lines[0])]
            rc, o, e = _run_block(hx, lines)
            if rc != 0:
                c = dict(c, stderr=e)
        ctx.violation(sig, {"kind": "crash", "lines": lines, "rc": c["rc"], "stderr": c["stderr"][:3500]},
                      what="implementation crashed / sanitizer report (%s) %s: %s" % (sig, what, lines[-1][:200]))


def split_out(line):
    parts = line.split("|")
    if len(parts) != 3:
        return line, [], ""
    return parts[0].strip(), parts[1].split(), parts[2].strip()


def keyed(trace):
    d = {}
    conflicts = []
    for t in trace:
        if t.startswith("@") and "=" in t:
            k, v = t.split("=", 1)
            if k in d and d[k] != v:
                conflicts.append((k, d[k], v))
            d[k] = v
    return d, conflicts


# ------------------------------------------------------------------------------------------ case generation
def gen_texts(ctx, n):
    texts = []
    seen = set()
    rng = ctx.rng.fork("texts")
    while len(texts) < n:
        kind, t = G.text(rng)
        if t in seen:
            continue
        seen.add(t)
        fl = []
        if rng.chance(1, 12) and len(t) > 2:
            fl = sorted(set(rng.range(1, len(t) - 1) for _ in range(rng.range(1, 2))))
        texts.append({"kind": kind, "bytes": t, "flushes": fl})
    return texts


def gen_sequences(ctx, n):
    """texts that are sequences of complete top-level forms fed to ONE parser (scratch-buffer reuse: later tokens shorter than
    earlier ones, tiny long strings with CR / LF contents)"""
    rng = ctx.rng.fork("seqs")
    out = []
    for _ in range(n):
        forms = G.form_sequence(rng)
        sep = rng.choice([b" ", b"\n", b" ", b"\r\n"])
        out.append({"kind": "sequence", "bytes": G.join_forms(forms, sep), "flushes": [], "forms": forms, "sep": sep})
    return out


STRIP_SM = None


def strip_sm(ev):
    """remove tuple source-map positions from a canonical event string (a form parsed alone sits at another line/column)"""
    import re
    global STRIP_SM
    if STRIP_SM is None:
        STRIP_SM = re.compile(r"([(\[])\d+:\d+ ?")
    return STRIP_SM.sub(r"\1", ev)


def history_oracle(hx, seqs):
    """a complete top-level form must parse to the same value after any prefix of complete forms as in a fresh parser
    (consequence of the property for complete forms).  Returns (failures, crashes, runs)"""
    lines, meta = [], []
    for si, t in enumerate(seqs):
        before = b""
        for fi, f in enumerate(t["forms"]):
            # long-string dedent legitimately depends on the column of the opening delimiter: keep the column
            tail = before.replace(b"\r", b"\n").rsplit(b"\n", 1)[-1]
            b = b" " * len(tail) + f + t["sep"]
            t.setdefault("alone", []).append(b)
            lines.append("case %s c%d,E,D" % (b.hex(), len(b)))
            meta.append((si, fi))
            before += f + t["sep"]
    outs, crashes = run_harness(hx, lines)
    alone = {}
    for (si, fi), o in zip(meta, outs):
        alone[(si, fi)] = o
    return alone, crashes, lines


def load_corpus():
    """corpus/C11/scenarios.txt:  <hexbytes|-> <TAB> <expected events>   (expected recorded from the clean tree and reviewed)"""
    out = []
    if not os.path.exists(CORPUS):
        return out
    with open(CORPUS) as f:
        for ln in f:
            ln = ln.rstrip("\n")
            if not ln or ln.startswith("#"):
                continue
            h, _, exp = ln.partition("\t")
            out.append({"kind": "corpus", "bytes": bytes.fromhex(h) if h != "-" else b"", "flushes": [], "expect": exp.strip()})
    return out


def case_lines(ctx, texts, nsched, solo=True):
    """owner[i] = index of the text whose schedules are compared with each other; negative = solo run (API-sequence fuzz with raw
    flush / undrained error taking: result legitimately depends on the schedule)"""
    rng = ctx.rng.fork("sched")
    lines, owner = [], []
    nsolo = 0
    for ti, t in enumerate(texts):
        for s in G.schedules(rng, len(t["bytes"]), t["flushes"], nsched):
            lines.append("case %s %s" % (t["bytes"].hex() or "-", s))
            owner.append(ti)
        if solo and "expect" not in t:
            for _ in range(2):
                nsolo += 1
                lines.append("case %s %s" % (t["bytes"].hex() or "-", G.schedule_solo(rng, len(t["bytes"]))))
                owner.append(-nsolo)
    return lines, owner


# ------------------------------------------------------------------------------------------ oracles on outputs
def direct_oracle(texts, lines, owner, outs):
    """property oracle on implementation outputs alone.  returns list of failures (dict)"""
    fails = []
    by = collections.defaultdict(list)
    for i, ti in enumerate(owner):
        by[ti].append(i)
    for ti, idxs in by.items():
        ref = None
        merged = {}
        for i in idxs:
            ev, tr, num = split_out(outs[i])
            bad = [m for m in BAD_MARKS if m in outs[i]]
            if bad:
                fails.append({"why": "api-contract:" + bad[0], "case": lines[i], "out": outs[i]})
                continue
            for t in tr:
                if (":es=" in t or ":es2=" in t) and not t.endswith("=error"):
                    fails.append({"why": "error-latch-lost", "case": lines[i], "out": outs[i], "token": t})
                if ":es3=" in t and t.endswith("=error"):
                    fails.append({"why": "error-not-cleared-by-parser/error", "case": lines[i], "out": outs[i], "token": t})
            d, conf = keyed(tr)
            if conf and ti >= 0:
                fails.append({"why": "same-run-position-conflict", "case": lines[i], "out": outs[i], "conflict": conf[0]})
            if ref is None:
                ref = (i, ev, num)
                merged = d
                exp = texts[ti].get("expect") if ti >= 0 else None
                if exp is not None and exp != ev:
                    fails.append({"why": "corpus-expectation", "case": lines[i], "out": outs[i], "expected": exp})
                continue
            if ev != ref[1]:
                fails.append({"why": "events-differ-between-schedules", "case": lines[i], "out": outs[i], "ref_case": lines[ref[0]], "ref_out": outs[ref[0]]})
                continue
            if num != ref[2]:
                fails.append({"why": "token-scan-sequence-differs", "case": lines[i], "out": outs[i], "ref_case": lines[ref[0]], "ref_out": outs[ref[0]]})
            for k, v in d.items():
                if k in merged and merged[k] != v:
                    fails.append({"why": "position-or-state-differs-between-schedules", "key": k, "a": merged[k], "b": v, "case": lines[i], "out": outs[i],
                                  "ref_case": lines[ref[0]], "ref_out": outs[ref[0]]})
                    break
                merged[k] = v
    return fails


def canon_jdn(b):
    """canonicalise %j text: inside every { } / @{ } sort the (key value) pairs (slot order is hashing, C03/C04); everything
    else byte for byte.  Returns None if the text is not well formed."""
    def item(i):
        if i >= len(b):
            raise ValueError
        c = b[i:i + 1]
        if c == b"@" and b[i + 1:i + 2] in (b"[", b"{", b"(", b'"'):
            t, j = item(i + 1)
            return b"@" + t, j
        if c == b'"':
            j = i + 1
            while b[j:j + 1] != b'"':
                j += 2 if b[j:j + 1] == b"\\" else 1
                if j >= len(b):
                    raise ValueError
            return b[i:j + 1], j + 1
        if c in (b"(", b"[", b"{"):
            close = {b"(": b")", b"[": b"]", b"{": b"}"}[c]
            items = []
            j = i + 1
            while b[j:j + 1] != close:
                if b[j:j + 1] == b" ":
                    j += 1
                    continue
                t, j = item(j)
                items.append(t)
                if j >= len(b):
                    raise ValueError
            if c == b"{":
                if len(items) % 2:
                    raise ValueError
                pairs = sorted(items[k] + b" " + items[k + 1] for k in range(0, len(items), 2))
                return b"{" + b" ".join(pairs) + b"}", j + 1
            return c + b" ".join(items) + close, j + 1
        j = i
        while j < len(b) and b[j:j + 1] not in (b" ", b")", b"]", b"}"):
            j += 1
        if j == i:
            raise ValueError
        return b[i:j], j
    try:
        t, j = item(0)
        return t if j == len(b) else None
    except (ValueError, IndexError):
        return None


def subterms(toks):
    """all complete subterms of a term token list (for minimising a round-trip failure)"""
    out = []
    stack = []
    for i, t in enumerate(toks):
        if t in ("t(", "t[", "a[", "d{", "m{"):
            stack.append(i)
        elif t in (")", "]", "}"):
            j = stack.pop()
            out.append(toks[j:i + 1])
        else:
            out.append([t])
    return out


def summarize(texts, lines, outs):
    kinds = collections.Counter(t["kind"] for t in texts)
    sizes = [len(t["bytes"]) for t in texts]
    errs = collections.Counter()
    vals = collections.Counter()
    ops = collections.Counter()
    nerr_cases = 0
    for l, o in zip(lines, outs):
        ev, tr, num = split_out(o)
        had = False
        for e in ev.split():
            if e.startswith("e:"):
                had = True
                msg = e[2:].split("@")[0].split(",")[0]
                errs[msg.rstrip("_)]}")] += 1
            elif e.startswith("v:"):
                c = e[2:3]
                vals[{"(": "tuple", "[": "btuple", "@": "array/table", "{": "struct", "s": "string", "b": "buffer", "y": "symbol", "k": "keyword", "n": "number",
                      "i": "s64", "u": "u64"}.get(c, e[2:7])] += 1
        nerr_cases += had
        for op in l.split(" ", 2)[2].split(","):
            if op:
                ops[op[0]] += 1
    return {"text_kinds": dict(kinds), "text_len_min_med_max": [min(sizes), sorted(sizes)[len(sizes) // 2], max(sizes)] if sizes else [],
            "error_kinds_hit": dict(errs.most_common(20)), "toplevel_value_kinds": dict(vals), "schedule_op_mix": dict(ops), "runs_with_error": nerr_cases}


# ------------------------------------------------------------------------------------------ the check
def run(ctx, replay_lines=None):
    quick = ctx.tier == "quick"
    broken = []
    have_lean = os.path.exists(os.path.join(VERIF, "lean/JanetModel/Props/C11.lean")) and os.path.exists(os.path.join(VERIF, "lean/JanetModel/Parse/Model.lean"))
    # (A) regenerate the tables / shapes the theorems hinge on
    try:
        ctx.build.boot()
        ctx.gen("Parse.lean", gen_parse.render(ctx.build.tree))
    except ExtractError as e:
        broken.append("translator tools/gen/parse.py: %s" % e)
        ctx.broken.append(broken[-1])
    except BuildError as e:
        ctx.violation("build-failed", {"kind": "build", "error": str(e)}, found=False, what="tree does not build")
        return ctx.finish("proof", {"evaluations": 0, "distinct_nontrivial": 0, "rule": "n/a", "samples": []})
    # (B,C) kernel check + audit
    if have_lean:
        broken += ctx.obligations("JanetModel.Props.C11", THEOREMS)
        if not quick:
            ok, log = ctx.leanchecker("JanetModel.Props.C11")
            if not ok:
                broken.append("leanchecker JanetModel.Props.C11: " + log[-300:])
                ctx.broken.append(broken[-1])
    try:
        hx = ctx.build.harness("asan", "c11p", [os.path.join(VERIF, "harness/C11/pharness.c")])
    except BuildError as e:
        if "harness" in str(e):
            ctx.violation("broken:harness-compile", {"kind": "broken-tie", "error": str(e)[-1500:]}, found=False,
                          what="wrapper TU around parse.c no longer compiles (parser internals changed shape)")
        else:
            ctx.violation("build-failed", {"kind": "build", "error": str(e)}, found=False, what="tree does not build")
        return ctx.finish("proof", {"evaluations": 0, "distinct_nontrivial": 0, "rule": "n/a", "samples": []})

    # ---- cases
    seqs = gen_sequences(ctx, 600 if quick else 8000)
    texts = load_corpus() + gen_texts(ctx, 1500 if quick else 20000) + seqs
    nsched = 8 if quick else 12
    lines, owner = case_lines(ctx, texts, nsched)
    ctx.say("%d texts, %d (text, schedule) runs" % (len(texts), len(lines)))
    outs, crashes = run_harness(hx, lines)
    report_crashes(ctx, hx, crashes, "while parsing")
    ncrash = sum(1 for o in outs if o == "CRASH")
    if ncrash:
        keep = [i for i, o in enumerate(outs) if o != "CRASH"]
        lines, owner, outs = [lines[i] for i in keep], [owner[i] for i in keep], [outs[i] for i in keep]

    # (E) direct oracle on the implementation
    fails = direct_oracle(texts, lines, owner, outs)
    reported = set()
    for f in fails:
        sig = "parse:" + f["why"]
        if sig in reported:
            continue
        reported.add(sig)
        ctx.violation(sig, {"kind": "parser-oracle", "detail": f, "lines": [f.get("ref_case"), f["case"]] if f.get("ref_case") else [f["case"]]},
                      what="%s: %s" % (f["why"], f["case"][:160]))

    # (E0) the error text must not depend on heap activity: texts whose error is a message GENERATED at run time (delim_error: a heap string
    #      that only the parser references, kept alive by parsermark iff flag JANET_PARSER_GENERATED_ERROR is set) are run again on the
    #      UN-instrumented build with and without a collection + allocations + collection between the latch and parser/error
    heap_runs, heap_texts = 0, 0
    try:
        hplain = ctx.build.harness("plain", "c11p", [os.path.join(VERIF, "harness/C11/pharness.c")])
    except BuildError:
        hplain = None
    if hplain:
        first = {}
        for i, ti in enumerate(owner):
            if ti >= 0 and ti not in first:
                first[ti] = i
        cand = [ti for ti, i in sorted(first.items()) if "opened_at_line" in split_out(outs[i])[0]]
        kinds_seen = collections.Counter()
        pick = []
        for ti in cand:       # every corpus scenario, then a spread over the opener kinds
            ev = split_out(outs[first[ti]])[0]
            k = ev.split("e:")[-1].split("_opened_at")[0][-3:]
            if texts[ti].get("kind") == "corpus" or kinds_seen[k] < (40 if quick else 400):
                kinds_seen[k] += 1
                pick.append(ti)
        hl, hown = [], []
        for ti in pick:
            t = texts[ti]
            base_s = G.schedule_whole(len(t["bytes"]), t["flushes"], "c")
            for sc in (base_s, "g," + base_s, "g," + G.schedule_whole(len(t["bytes"]), t["flushes"], "b"), "g,K,G," + base_s):
                hl.append("case %s %s" % (t["bytes"].hex() or "-", sc))
                hown.append(ti)
        houts, hcr = run_harness(hplain, hl)
        heap_runs, heap_texts = len(hl), len(pick)
        seen_h = set()
        for l, ti, o in zip(hl, hown, houts):
            ref_ev = split_out(outs[first[ti]])[0]
            got = "CRASH" if o == "CRASH" else split_out(o)[0]
            if got != ref_ev and ti not in seen_h:
                seen_h.add(ti)
                sig = "parse:error-text-depends-on-heap-activity"
                if sig not in reported:
                    reported.add(sig)
                    ge, re_ = got.split(), ref_ev.split()
                    k = next((j for j in range(min(len(ge), len(re_))) if ge[j] != re_[j]), min(len(ge), len(re_)))
                    ctx.violation(sig, {"kind": "heap-activity", "lines": [lines[first[ti]], l], "expected_events": ref_ev, "observed_events": got[:600]},
                                  what="same bytes, error read after a collection and unrelated allocations: event %d is %s instead of %s (%s)" %
                                       (k, (ge[k] if k < len(ge) else "<missing>")[:120], (re_[k] if k < len(re_) else "<missing>")[:120], l[:120]))

    # (E0b) digit separators: a numeric literal with `_` inserted at ANY position either is no longer a number (symbol / error) or reads as
    #       exactly the value of the separator-free literal (bit for bit) -- reading data must not depend on how the digits are grouped
    srng = ctx.rng.fork("sep")
    sep_lits, seen_l = [], set()
    for l in list(G.SEP_FIXED):
        if l not in seen_l:
            seen_l.add(l)
            sep_lits.append(l)
    while len(sep_lits) < (400 if quick else 6000):
        l = G.sep_literal(srng)
        if l not in seen_l and b"_" not in l:
            seen_l.add(l)
            sep_lits.append(l)
    sep_lines, sep_meta = [], []
    for l in sep_lits:
        toks = [l] + G.sep_variants(l)
        b = b" ".join(toks) + b"\n"
        sep_lines.append("case %s c%d,E,D" % (b.hex(), len(b)))
        sep_meta.append(toks)
    sep_outs, sep_cr = run_harness(hx, sep_lines)
    report_crashes(ctx, hx, sep_cr, "while parsing numeric literals with digit separators")
    sep_stats = collections.Counter()
    for l, toks, o in zip(sep_lines, sep_meta, sep_outs):
        if o == "CRASH":
            continue
        evs = split_out(o)[0].split()
        if len(evs) != len(toks):
            sep_stats["misaligned"] += 1
            continue
        if not evs[0].startswith(("v:n", "v:i", "v:u")):
            sep_stats["base-not-a-number"] += 1
            continue
        sep_stats["literals"] += 1
        for tk, e in zip(toks[1:], evs[1:]):
            if e.startswith(("v:n", "v:i", "v:u")):
                sep_stats["variants-number"] += 1
                if e != evs[0]:
                    sig = "parse:digit-separator-changes-value"
                    if sig not in reported:
                        reported.add(sig)
                        two = toks[0] + b" " + tk + b"\n"
                        ctx.violation(sig, {"kind": "separator", "lines": ["case %s c%d,E,D" % (two.hex(), len(two))], "literal": toks[0].decode("latin-1"),
                                            "with_separator": tk.decode("latin-1"), "value": evs[0], "value_with_separator": e},
                                      what="literal %s reads as %s but %s reads as %s" % (toks[0].decode("latin-1"), evs[0], tk.decode("latin-1"), e))
            else:
                sep_stats["variants-not-number"] += 1

    # (E1) history independence of complete forms (scratch-buffer reuse)
    alone, hcrashes, hlines = history_oracle(hx, seqs)
    report_crashes(ctx, hx, hcrashes, "while parsing a single form")
    whole_ev = {}
    for i, ti in enumerate(owner):
        if ti >= 0 and texts[ti].get("kind") == "sequence" and ti not in whole_ev:
            whole_ev[ti] = (lines[i], split_out(outs[i])[0])
    base = len(texts) - len(seqs)
    hist_checked = 0
    hist_errors = 0

    def no_off(e):
        """an error event carries the byte offset of the report: `e:<message>@<offset>`"""
        return e.rsplit("@", 1)[0] if e.startswith("e:") else e

    for si, t in enumerate(seqs):
        w = whole_ev.get(base + si)
        if not w:
            continue
        evs = w[1].split()
        alone_evs = [split_out(alone.get((si, fi), "CRASH"))[0].split() if alone.get((si, fi), "CRASH") != "CRASH" else None
                     for fi in range(len(t["forms"]))]
        if len(evs) != len(t["forms"]) or any(a is None or len(a) != 1 or "unexpected_end_of_source" in a[0] for a in alone_evs):
            continue      # a form that is not exactly one event (value or self-contained error): the 1-1 alignment is lost, skip
        for fi, f in enumerate(t["forms"]):
            aev = alone_evs[fi]
            hist_checked += 1
            if aev[0].startswith("e:"):
                hist_errors += 1
            if no_off(strip_sm(aev[0])) != no_off(strip_sm(evs[fi])):
                sig = "parse:value-depends-on-earlier-input"
                if sig not in reported:
                    reported.add(sig)
                    b = t["alone"][fi]
                    ctx.violation(sig, {"kind": "history", "lines": [w[0], "case %s c%d,E,D" % (b.hex(), len(b))], "form_index": fi,
                                        "in_sequence": evs[fi], "alone": " ".join(aev)},
                                  what="form %r parses to %s after earlier forms but to %s in a fresh parser" % (f, evs[fi][:80], " ".join(aev)[:80]))
                break

    # (D) correspondence with the Lean model
    diffs = []
    model_lines = 0
    phys_faults = []
    exe = ctx.driver() if have_lean else None
    if exe:
        mlines = []
        for l, o in zip(lines, outs):
            ev, tr, num = split_out(o)
            mlines.append(l + " " + (num or "-"))
        mouts = []
        nblk = JOBS
        size = (len(mlines) + nblk - 1) // nblk
        blocks = [mlines[i:i + size] for i in range(0, len(mlines), size)]
        with cf.ThreadPoolExecutor(JOBS) as ex:
            for r in ex.map(lambda b: ctx.model(b, exe=exe), blocks):
                mouts += r
        model_lines = len(mouts)
        phys_faults = [l for l, b in zip(lines, mouts) if "PHYS-FAULT" in b]
        if phys_faults:
            # a checked memory access of the physical machine (Parse/Phys.lean) failed on a concrete history: Props.C11.phys_api_history_safe
            # says this cannot happen -- the machine or its invariants no longer describe the run
            broken.append("physical machine: a checked memory access failed in %d runs, first %s" % (len(phys_faults), phys_faults[0][:300]))
            ctx.broken.append(broken[-1])
        for l, a, b in zip(lines, outs, mouts):
            if " ".join(a.split()) != " ".join(b.split()):
                diffs.append({"case": l, "impl": a, "model": b})
        if diffs or len(mouts) != len(lines):
            broken.append("correspondence parser model/impl: %d differing runs of %d, first %s" % (len(diffs), len(lines), json.dumps(diffs[:1])[:600]))
            ctx.broken.append(broken[-1])

    # (E2) JDN round trip on the implementation, and (D2) printer correspondence
    rrng = ctx.rng.fork("jdn")
    terms = []
    for d in (1, 10, 100, 400):
        for k in ("t(", "t[", "a["):
            terms.append((G.nested_term(d, k), False))
    for d in (5, 37, 200, 700):
        terms.append((G.mixed_nested(d), False))
        terms.append((G.mixed_nested(d, rrng), False))
    for _ in range(150 if quick else 3000):
        terms.append((G.value_term(rrng, rrng.range(5, 8), False), False))
    for s in G.SYMBOL_POOL:
        terms.append((["y" + s.hex()], False))
    for s in G.TRICKY_SYMBOLS:
        terms.append((["y" + s.hex()], True))
    for s in G.KEYWORD_POOL:
        terms.append((["k" + s.hex()], False))
    for s in G.TRICKY_KEYWORDS:
        terms.append((["k" + s.hex()], True))
    for b in range(256):
        terms.append((["s" + bytes([b]).hex()], False))
        terms.append((["b" + bytes([b, 0x30, b]).hex()], False))
    import struct
    for bits in G.BOUNDARY_DOUBLES:
        terms.append((["n%016x:%s" % (bits, "%.17g" % struct.unpack("<d", struct.pack("<Q", bits))[0])], False))
    for bits in G.BAD_DOUBLES:
        terms.append((["n%016x:%s" % (bits, "%.17g" % struct.unpack("<d", struct.pack("<Q", bits))[0])], True))
    for _ in range(3000 if quick else 60000):
        tricky = rrng.chance(1, 4)
        terms.append((G.value_term(rrng, rrng.range(0, 4), tricky), tricky))
    rt_lines = ["rt " + " ".join(t) for t, _ in terms]
    rt_outs, crashes = run_harness(hx, rt_lines)
    rt_stats = collections.Counter()
    report_crashes(ctx, hx, crashes, "in %j print / parse round trip")
    rt_reported = set()
    for (t, tricky), l, o in zip(terms, rt_lines, rt_outs):
        w = o.split(" ", 1)[0]
        rt_stats[w + ("-tricky" if tricky else "")] += 1
        if w == "CRASH":
            continue
        if w == "MISMATCH" or (w == "refused" and not tricky) or w not in ("ok", "refused", "MISMATCH"):
            # minimise: smallest subterm that fails on its own
            best = (t, o)
            subs = sorted(subterms(t), key=len)
            souts, _ = run_harness(hx, ["rt " + " ".join(s) for s in subs])
            for s, so in zip(subs, souts or []):
                if so.split(" ", 1)[0] == w:
                    best = (s, so)
                    break
            mt, mo = best
            if w == "MISMATCH" and len(mt) == 1 and mt[0][0] == "y":
                sig = "jdn-symbol-reads-back-as-other"
            elif w == "MISMATCH":
                sig = "jdn-roundtrip:" + " ".join(mt)[:60]
            else:
                sig = "jdn-refused-data:" + " ".join(mt)[:60]
            if sig in rt_reported or len(rt_reported) >= 3:
                continue
            rt_reported.add(sig)
            ctx.violation(sig, {"kind": "jdn-roundtrip", "lines": ["rt " + " ".join(mt)], "observed": mo, "original": l, "original_observed": o},
                          what="(parse (string/format \"%%j\" v)) is not deep= v: term %s -> %s" % (" ".join(mt)[:100], mo[:100]))
    pdiffs = []
    if exe and rt_outs:
        jl = ["jdn " + " ".join(t) for t, _ in terms]
        jo_impl, _ = run_harness(hx, jl)
        jo_model = ctx.model(jl, exe=exe)
        for l, a, b in zip(jl, jo_impl or [], jo_model):
            a0, b0 = a.split(" ")[0], b.split(" ")[0]
            if b == "skip":
                rt_stats["printer-skip"] += 1
                continue
            rt_stats["printer-compared"] += 1
            if a0 == b0:
                continue
            rt_stats["printer-compared-modulo-dict-order"] += 1
            try:
                ca, cb = canon_jdn(bytes.fromhex(a0)), canon_jdn(bytes.fromhex(b0))
            except ValueError:
                ca, cb = None, 0
            if ca is None or ca != cb:
                pdiffs.append({"case": l, "impl": a, "model": b})
        if pdiffs:
            broken.append("correspondence %%j printer model/impl: %d differing of %d, first %s" % (len(pdiffs), len(jl), json.dumps(pdiffs[:1])[:500]))
            ctx.broken.append(broken[-1])

    # (D3) the statement of Props.C11.jdn_roundtrip evaluated on the executable model (print, parseAll, compare up to source maps) must agree
    #      with the implementation's round trip term by term; (D4) every text the real %j printed goes through BOTH parsers under
    #      several schedules (state dumps after every byte) and the direct oracle
    mdiffs = []
    jtexts = []
    if exe and rt_outs:
        ml = ["rtm " + " ".join(t) for t, _ in terms]
        mo = []
        size = (len(ml) + JOBS - 1) // JOBS
        with cf.ThreadPoolExecutor(JOBS) as ex:
            for r in ex.map(lambda b: ctx.model(b, exe=exe), [ml[i:i + size] for i in range(0, len(ml), size)]):
                mo += r
        seen_txt = set()
        for l, a, b in zip(ml, rt_outs, mo):
            a0, b0 = a.split(" ")[0], b.split(" ")[0]
            if b0 == "skip" or a0 == "CRASH":
                rt_stats["model-roundtrip-skip"] += 1
                continue
            rt_stats["model-roundtrip-" + b0] += 1
            same = a0 == b0
            if same and a0 == "ok":
                ha, hb = (a.split(" ") + ["-"])[1], (b.split(" ") + ["-"])[1]
                if ha != hb:
                    try:
                        same = canon_jdn(bytes.fromhex(ha)) == canon_jdn(bytes.fromhex(hb)) and canon_jdn(bytes.fromhex(ha)) is not None
                    except ValueError:
                        same = False
                if ha not in seen_txt and ha != "-" and len(ha) <= 6000:
                    seen_txt.add(ha)
                    jtexts.append({"kind": "jdn-output", "bytes": bytes.fromhex(ha), "flushes": []})
            if not same:
                mdiffs.append({"case": l, "impl": a[:300], "model": b[:300]})
        if mdiffs or len(mo) != len(ml):
            broken.append("correspondence jdn_roundtrip on the model vs implementation round trip: %d differing of %d, first %s" %
                          (len(mdiffs), len(ml), json.dumps(mdiffs[:1])[:500]))
            ctx.broken.append(broken[-1])
    jdiffs = []
    jruns = 0
    if jtexts:
        jl2, jown = case_lines(ctx, jtexts, 3, solo=False)
        jouts, jcr = run_harness(hx, jl2)
        report_crashes(ctx, hx, jcr, "while parsing %j output")
        keep = [i for i, o in enumerate(jouts) if o != "CRASH"]
        jl2, jown, jouts = [jl2[i] for i in keep], [jown[i] for i in keep], [jouts[i] for i in keep]
        jruns = len(jl2)
        for f in direct_oracle(jtexts, jl2, jown, jouts):
            sig = "parse:" + f["why"]
            if sig not in reported:
                reported.add(sig)
                ctx.violation(sig, {"kind": "parser-oracle", "detail": f, "lines": [f.get("ref_case"), f["case"]] if f.get("ref_case") else [f["case"]]},
                              what="%s (on %%j output): %s" % (f["why"], f["case"][:160]))
        for l, o in zip(jl2, jouts):
            ev = [e for e in split_out(o)[0].split() if e.startswith(("v:", "e:"))]
            if len(ev) != 1 or not ev[0].startswith("v:"):
                sig = "jdn-output-not-one-value"
                if sig not in reported:
                    reported.add(sig)
                    ctx.violation(sig, {"kind": "parser-oracle", "detail": {"why": sig, "case": l, "out": o[:400]}, "lines": [l]},
                                  what="%%j output does not parse to exactly one value: %s -> %s" % (l[:120], " ".join(ev)[:120]))
        if exe:
            jm = [l + " " + (split_out(o)[2] or "-") for l, o in zip(jl2, jouts)]
            jmo = []
            size = (len(jm) + JOBS - 1) // JOBS
            with cf.ThreadPoolExecutor(JOBS) as ex:
                for r in ex.map(lambda b: ctx.model(b, exe=exe), [jm[i:i + size] for i in range(0, len(jm), size)]):
                    jmo += r
            for l, a, b in zip(jl2, jouts, jmo):
                if " ".join(a.split()) != " ".join(b.split()):
                    jdiffs.append({"case": l, "impl": a[:600], "model": b[:600]})
            if jdiffs or len(jmo) != len(jm):
                broken.append("correspondence parser model/impl on %%j output: %d differing runs of %d, first %s" % (len(jdiffs), len(jm), json.dumps(jdiffs[:1])[:600]))
                ctx.broken.append(broken[-1])

    if broken and not ctx.nviol:
        # a proof obligation / the tie broke and the direct oracles found nothing at this size: search harder once
        if quick and not replay_lines:
            more = gen_texts(ctx, 6000)
            l2, o2 = case_lines(ctx, more, 10)
            outs2, crash2 = run_harness(hx, l2)
            report_crashes(ctx, hx, crash2, "in extended search")
            keep = [i for i, o in enumerate(outs2) if o != "CRASH"]
            l2, o2, outs2 = [l2[i] for i in keep], [o2[i] for i in keep], [outs2[i] for i in keep]
            f2 = direct_oracle(more, l2, o2, outs2)
            if f2:
                f = f2[0]
                ctx.violation("parse:" + f["why"], {"kind": "parser-oracle", "detail": f, "lines": [f.get("ref_case"), f["case"]] if f.get("ref_case") else [f["case"]]},
                              what="%s (extended search): %s" % (f["why"], f["case"][:160]))
        if not ctx.nviol:
            first = diffs[0] if diffs else (pdiffs[0] if pdiffs else (jdiffs[0] if jdiffs else (mdiffs[0] if mdiffs else None)))
            ctx.violation("broken:" + broken[0][:80], {"kind": "broken-obligation", "broken": broken, "first_diffs": diffs[:5] + pdiffs[:5] + mdiffs[:5] + jdiffs[:5],
                                                       "lines": [first["case"]] if first else []}, found=False,
                          what="no longer shown to hold: " + "; ".join(broken)[:700])

    summ = summarize(texts, lines, outs)
    cov = {
        "evaluations": len(lines) + len(rt_lines) + model_lines,
        "distinct_nontrivial": len(set(lines)) + len(set(rt_lines)),
        "rule": "a parser run = one generated text (valid grammar-based / damaged / weighted random bytes / corpus) under one schedule "
                "(whole, parser/byte per byte, C-API per byte, 1-byte consumes with full state dumps, random chunkings mixing the three entry points "
                "with clone points and interleaved status/where/state/has-more/produce/error/GC); a jdn case = one value term; non-trivial = distinct protocol line",
        "samples": [lines[0][:200], lines[len(lines) // 2][:200], rt_lines[-1][:200]],
        "texts": len(texts), "texts_with_long_string_delimiter": sum(1 for t in texts if b"`" in t["bytes"]), "schedules_per_text": nsched, "parser_runs": len(lines),
        "oracle_failures": len(fails), "digit_separator_family": dict(sep_stats), "heap_activity_error_texts": heap_texts, "heap_activity_runs_plain_build": heap_runs, "history_independence_forms_checked": hist_checked, "history_independence_error_forms": hist_errors, "sequence_texts": len(seqs), "correspondence_runs": model_lines, "correspondence_diffs": len(diffs),
        "jdn_terms": len(rt_lines), "jdn_results": dict(rt_stats), "jdn_printer_correspondence_diffs": len(pdiffs),
        "capacity_dumps_compared": sum(o.count(" cap:") for o in outs) if exe else 0,
        "physical_machine_runs": model_lines, "physical_machine_faults": len(phys_faults),
        "jdn_model_roundtrip_diffs": len(mdiffs), "jdn_output_texts_through_both_parsers": len(jtexts), "jdn_output_parser_runs": jruns,
        "jdn_output_parser_diffs": len(jdiffs),
        "jdn_output_len_min_med_max": ([min(len(t["bytes"]) for t in jtexts), sorted(len(t["bytes"]) for t in jtexts)[len(jtexts) // 2],
                                        max(len(t["bytes"]) for t in jtexts)] if jtexts else []),
        "distribution": summ,
    }
    return ctx.finish("proof", cov, assumptions=[
        "number tokens: token -> number? is an abstract parameter of the model and of the theorems (janet_scan_numeric is C13's); the harness logs every "
        "call the real parser makes and hands the table to the model",
        "model covers parser/new, consume, byte, eof, status, produce (wrapped or not), has-more, where (read and set), error, flush, clone, state, insert; "
        "capacities of the three parser stacks are an overlay model (Parse/Cap.lean) compared with bufcap/statecap/argcap after every dump; GC marking and OOM paths are not modelled",
        "jdn_roundtrip: numbers under NumOK (scanner inverts the formatter on printed numbers; C13); result equal up to tuple source-map positions; dictionaries printed in "
        "association-list order (the C prints hash-slot order: %j texts of dictionaries with more than one entry are compared modulo pair order, and the real text goes through both parsers)",
        "model = C is tested (correspondence incl. internal struct fields), not proved",
    ])


def replay(ctx, path):
    r = json.load(open(path))
    print(json.dumps({k: v for k, v in r.items() if k != "detail"}, indent=1)[:1500])
    lines = [l for l in r.get("lines", []) if l]
    try:
        hx = ctx.build.harness("asan", "c11p", [os.path.join(VERIF, "harness/C11/pharness.c")])
    except BuildError as e:
        print("harness does not build:", str(e)[-500:])
        return 1
    outs, crashes = run_harness(hx, lines)
    if crashes:
        print("REPRODUCED: crash\n" + crashes[0]["stderr"][-1500:])
        return 1
    for l, o in zip(lines, outs):
        print(l[:300])
        print("  ->", o[:600])
    bad = False
    if r.get("kind") == "jdn-roundtrip":
        bad = any(not o.startswith("ok") for o in outs)
    elif r.get("kind") == "separator":
        ev = split_out(outs[0])[0].split() if outs else []
        bad = len(ev) == 2 and ev[1].startswith(("v:n", "v:i", "v:u")) and ev[0] != ev[1]
    elif r.get("kind") == "heap-activity":
        hplain = ctx.build.harness("plain", "c11p", [os.path.join(VERIF, "harness/C11/pharness.c")])
        o2, c2 = run_harness(hplain, lines[1:])
        print("plain build:", lines[1][:300], "\n  ->", (o2 or ["CRASH"])[0][:600])
        bad = bool(c2) or not o2 or split_out(o2[0])[0] != r.get("expected_events")
    elif r.get("kind") == "history":
        ev = [split_out(o)[0].split() for o in outs]
        fi = r.get("form_index", 0)
        bad = len(ev) == 2 and (len(ev[0]) <= fi or len(ev[1]) != 1 or strip_sm(ev[0][fi]) != strip_sm(ev[1][0]))
    elif r.get("kind") == "parser-oracle":
        texts = [{"kind": "replay", "bytes": b"", "flushes": []}]
        if r.get("detail", {}).get("expected") is not None:
            texts[0]["expect"] = r["detail"]["expected"]
        bad = bool(direct_oracle(texts, lines, [0] * len(lines), outs))
    else:
        return run(ctx)
    print("REPRODUCED" if bad else "not reproduced (property holds on this input now)")
    return 1 if bad else 0
