"""C03 - equality, hashing and ordering agree with each other.

Pipeline (DESIGN.md section 0 / section 3 C03):
 (A) regenerate Gen/Value.lean (hash constants, JanetType order, tablen shifts + shape checks of janet_hash / janet_struct_end)
 (B,C) kernel re-check of Props/C03 + axiom audit
 (D) correspondence: a generated janet script builds a pool of values in every way the property lists; the C harness
     (asan variant, harness/C03/pool.c) serialises them (64-bit patterns, struct slot arrays as they lie in memory) and
     prints janet_equals / janet_compare / janet_hash; the Lean model driver computes the same from the serialised values;
     struct layouts are re-built by the model's janet_struct_put/end from the occupied slots in several insertion orders
 (E) direct oracle, independent of the model: the laws themselves on the implementation's outputs over all pairs and
     all triples (in C), VM-level operators against the C API, content equality recomputed in python from the
     serialised trees (same content <=> `=`), numeric order against IEEE order, symbol identity, symbol-cache scenario.
"""
import importlib.util
import json
import os
import struct as pystruct
import tempfile

from vlib.core import run_cmd, VERIF
from vlib.build import BuildError
from tools.gen import value as gen_value
from tools.gen.csrc import ExtractError

THEOREMS = ["JanetModel.Props.C03." + t for t in (
    "equals_refl", "equals_symm", "equals_trans", "equals_iff_content", "equals_hash",
    "compare_antisymm", "compare_trans", "compare_lt_of_lt_of_le", "compare_lt_of_le_of_lt", "compare_total", "compare_total_order",
    "compare_eq_zero_iff_equals", "compare_congr", "lt_le_gt_ge_agree",
    "tuple_by_content", "struct_by_slots", "ref_by_identity", "symbol_identity_iff_bytes",
    "struct_put_capacity", "struct_layout_canonical_partial", "struct_layout_canonical_partial_cluster",
    "symcache_unique", "symcache_same_symbol", "struct_layout_canonical", "struct_layout_canonical_general", "struct_put_existing_key", "struct_by_content",
    # session 3: insertion sequences with duplicate keys
    "struct_by_final_map", "struct_layout_canonical_dups", "struct_last_value_wins", "struct_by_map_content",
    "struct_flatten_first_value_wins", "struct_put_extra_dropped_witness",
    # session 3: NaN inside the model type; regenerated guards of janet_struct_put_ext / janet_table_put
    "string_compare_loop_is_lex", "string_equal_loop_is_byte_equality",
    "laws_on_nan_free_values", "nan_breaks_the_laws", "struct_put_ignores_nan_key", "struct_by_final_map_nan", "struct_put_guards_tie",
    # session 4: janet_symbol_gen on the symbol-cache model
    "gensym_probe_loop_tie", "gensym_fresh", "symcache_unique_gensym",
    # session 4: the explicit traversal stack of janet_equals / janet_compare computes the recursive definitions
    "compare_traversal_stack_is_recursive", "equals_traversal_stack_is_recursive", "compare_traversal_loop_invariant",
    # session 4b: abstract values with compare / hash hooks (value.c dispatch with the hooks as parameters; inttypes.c hooks lawful)
    "abstract_equals_equivalence_and_hash", "abstract_compare_antisymm", "abstract_compare_triple", "abstract_compare_eq_zero_iff_equals",
    "abstract_compare_total_order", "abstract_model_extends_value_model", "compare_abstract_is_type_then_hook", "inttypes_hooks_lawful",
    "abstract_dispatch_tie", "abstract_lt_le_gt_ge_agree", "abstract_compare_congr",
    # session 4b: the pointer short-cuts of janet_equals are reflexivity on content
    "equals_pointer_shortcuts_are_reflexivity", "pointer_shortcut_tie",
    # session 4b: equal lookups => MapEquiv => `=` structs
    "struct_by_lookups", "map_equiv_of_equal_lookups",
    # session 4b: traversal_next status numbers / branch structure regenerated
    "traversal_next_tie",
    # session 4d: the probe loop of janet_symbol_gen terminates within cache_count + 1 probes (inc_gensym = +1 in base 62 on the
    # regenerated digit transitions; pigeonhole on the live symbols); gensym_fresh / symcache_unique_gensym have no probe bound any more
    "gensym_terminates",
)]
# which law of a symbol-cache scenario to report first (the most direct statement of the property comes first)
SYM_LAW_ORDER = ["gensym-duplicates-live-symbol", "symbol-duplicate-live", "symbol-duplicate-after-collect", "compare-zero-iff-equals", "symbol-identity",
                 "symbol-not-equal", "gensym-returns-live-symbol", "gensym-not-interned", "symcache-lost-live-symbol", "symcache-duplicate-entry",
                 "symcache-unreachable-entry"]


def _first_law(laws):
    def rank(l):
        n = l.split(" ")[1]
        return SYM_LAW_ORDER.index(n) if n in SYM_LAW_ORDER else len(SYM_LAW_ORDER)
    return sorted(laws, key=rank)[0]


def _show_hist_ops(tokens, upto=None):
    out = []
    for t in tokens[:upto]:
        if t[0] in "ID":
            try:
                nm = bytes.fromhex(t[1:]).decode(errors="replace")
            except ValueError:
                nm = t[1:]
            out.append(("intern " if t[0] == "I" else "sweep ") + nm)
        else:
            out.append({"G": "gensym", "X": "(collect done)"}.get(t, t))
    return out


def run_symhist(ctx, hx, exe, seed, nhist, nops, nmodel):
    """symbol-cache histories on a fresh VM: direct laws in C + bit-exact replay by the Lean model (slots, counters, gensym counter)"""
    rc, out, err = run_cmd([hx, "symhist", str(seed), str(nhist), str(nops)], timeout=1500, env=ENV)
    out = out.decode(errors="replace")
    hops, hres, laws, summary = {}, {}, [], None
    for l in out.splitlines():
        if l.startswith("hops "):
            t = l.split(" ")
            hops[int(t[1])] = t[2:]
        elif l.startswith("hres "):
            t = l.split(" ")
            hres[int(t[1])] = t[2:]
        elif l.startswith("law "):
            laws.append(l)
        elif l.startswith("summary symhist"):
            t = l.split(" ")
            summary = dict(zip(t[2::2], t[3::2]))
    res = {"summary": summary, "laws": laws, "rc": rc, "err": err.decode(errors="replace")[-1500:], "diffs": [], "model_histories": 0, "model_ops": 0,
           "hops": hops}
    if exe:
        ids = [h for h in sorted(hops) if h in hres][:nmodel]
        mo = ctx.model(["symhist " + " ".join(hops[h]) for h in ids], exe=exe) if ids else []
        res["model_histories"] = len(ids)
        if len(mo) != len(ids):
            res["diffs"].append({"op": "driver", "impl": "%d histories" % len(ids), "model": "%d lines" % len(mo)})
        for h, line in zip(ids, mo):
            mt, it = line.split(" ") if line else [], hres[h]
            res["model_ops"] += len(it)
            if mt != it:
                k = next((k for k in range(min(len(mt), len(it))) if mt[k] != it[k]), min(len(mt), len(it)))
                res["diffs"].append({"op": "symbol cache history %d, op %d (%s)" % (h, k, _show_hist_ops(hops[h][k:k + 1])),
                                     "history_so_far": _show_hist_ops(hops[h], k + 1)[-40:],
                                     "impl": (it[k] if k < len(it) else "<end>")[:400], "model": (mt[k] if k < len(mt) else "<end>")[:400]})
    return res

ENV = dict(os.environ, ASAN_OPTIONS="detect_leaks=0:abort_on_error=0", UBSAN_OPTIONS="print_stacktrace=1")
HARNESS_SRC = os.path.join(VERIF, "harness/C03/pool.c")
CORPUS = os.path.join(VERIF, "corpus/C03")


def _poolgen():
    spec = importlib.util.spec_from_file_location("c03_poolgen", os.path.join(VERIF, "harness/C03/poolgen.py"))
    m = importlib.util.module_from_spec(spec)
    spec.loader.exec_module(m)
    return m


# ---------------------------------------------------------------------------------------------------- term handling
def parse_term(toks, i=0):
    t = toks[i]
    if t == "n":
        return ("n", int(toks[i + 1], 16)), i + 2
    if t == "nil":
        return ("nil",), i + 1
    if t in ("t", "f"):
        return ("b", t == "t"), i + 1
    if t in ("s", "y", "k"):
        h = toks[i + 1]
        return (t, b"" if h == "-" else bytes.fromhex(h)), i + 2
    if t == "a":
        # type name, content (payload of a boxed integer / the boxed word of any other abstract), boxed word, address of the type record
        return ("a", bytes.fromhex(toks[i + 1]).decode(errors="replace"), int(toks[i + 2], 16), int(toks[i + 3], 16), int(toks[i + 4], 16)), i + 5
    if t == "r":
        return ("r", int(toks[i + 1]), int(toks[i + 2], 16)), i + 3
    if t == "T":
        br, n = toks[i + 1] == "1", int(toks[i + 2])
        i += 3
        xs = []
        for _ in range(n):
            x, i = parse_term(toks, i)
            xs.append(x)
        return ("T", br, tuple(xs)), i
    if t == "S":
        cap, pf = int(toks[i + 1]), toks[i + 2] == "1"
        i += 3
        slots = []
        for _ in range(cap):
            k, i = parse_term(toks, i)
            v, i = parse_term(toks, i)
            slots.append((k, v))
        proto = None
        if pf:
            proto, i = parse_term(toks, i)
        return ("S", tuple(slots), proto), i
    raise ValueError("bad term token %r" % t)


def show_term(x):
    k = x[0]
    if k == "n":
        return "n %016x" % x[1]
    if k == "nil":
        return "nil"
    if k == "b":
        return "t" if x[1] else "f"
    if k in ("s", "y", "k"):
        return "%s %s" % (k, x[1].hex() or "-")
    if k == "r":
        return "r %d %016x" % (x[1], x[2])
    if k == "a":
        return "a %s %016x %016x %016x" % (x[1].encode().hex(), x[2], x[3], x[4])
    if k == "T":
        return " ".join(["T", "1" if x[1] else "0", str(len(x[2]))] + [show_term(y) for y in x[2]])
    if k == "S":
        parts = ["S", str(len(x[1])), "1" if x[2] is not None else "0"]
        for a, b in x[1]:
            parts += [show_term(a), show_term(b)]
        if x[2] is not None:
            parts.append(show_term(x[2]))
        return " ".join(parts)
    raise ValueError(k)


def _abs_names(x):
    """type names of the abstract values inside a term"""
    if x[0] == "a":
        yield x[1]
    elif x[0] == "T":
        for y in x[2]:
            yield from _abs_names(y)
    elif x[0] == "S":
        for a, b in x[1]:
            yield from _abs_names(a)
            yield from _abs_names(b)
        if x[2] is not None:
            yield from _abs_names(x[2])


def fl(bits):
    return pystruct.unpack("<d", pystruct.pack("<Q", bits))[0]


def canon(x):
    """content of a value: what the property says equality must depend on (and nothing else)"""
    k = x[0]
    if k == "n":
        v = fl(x[1])
        return ("n", 0.0 if v == 0 else v)
    if k == "T":
        return ("T", x[1], tuple(canon(y) for y in x[2]))
    if k == "S":
        return ("S", frozenset((canon(a), canon(b)) for a, b in x[1] if a[0] != "nil"), None if x[2] is None else canon(x[2]))
    if k == "a":
        return x[:3]     # (type, content): the payload of a boxed integer, the identity of any other abstract
    return x


def layout(x):
    """like canon, but keeps the slot array of structs as it is"""
    k = x[0]
    if k == "n":
        v = fl(x[1])
        return ("n", 0.0 if v == 0 else v)
    if k == "T":
        return ("T", x[1], tuple(layout(y) for y in x[2]))
    if k == "S":
        return ("S", tuple((layout(a), layout(b)) for a, b in x[1]), None if x[2] is None else layout(x[2]))
    if k == "a":
        return x[:3]
    return x


def describe(x, depth=0):
    k = x[0]
    if k == "n":
        return repr(fl(x[1]))
    if k == "nil":
        return "nil"
    if k == "b":
        return "true" if x[1] else "false"
    if k == "s":
        return repr(x[1])[1:]
    if k == "y":
        return "'" + x[1].decode(errors="replace")
    if k == "k":
        return ":" + x[1].decode(errors="replace")
    if k == "r":
        return "<ref %d>" % x[1]
    if k == "a":
        if x[1] == "core/s64":
            return "<s64 %d>" % (x[2] - 2**64 if x[2] >= 2**63 else x[2])
        if x[1] == "core/u64":
            return "<u64 %d>" % x[2]
        return "<%s>" % x[1]
    if k == "T":
        inner = " ".join(describe(y, depth + 1) for y in x[2])
        return ("[%s]" if x[1] else "(%s)") % inner
    if k == "S":
        inner = " ".join("%s %s" % (describe(a, depth + 1), describe(b, depth + 1)) for a, b in x[1] if a[0] != "nil")
        return "{%s}%s" % (inner, "" if x[2] is None else "^" + describe(x[2], depth + 1))
    return "?"


# ---------------------------------------------------------------------------------------------------- harness runs
class PoolRun:
    def __init__(self, script, labels):
        self.script, self.labels = script, labels
        self.rc = None
        self.vals, self.meta, self.capi, self.laws, self.summary, self.err = {}, {}, {}, [], None, ""
        self.adrs = {}


def run_pool(hx, script, labels, timeout=1500):
    pr = PoolRun(script, labels)
    fd, path = tempfile.mkstemp(prefix="c03pool-", suffix=".janet", dir="/var/tmp")
    try:
        with os.fdopen(fd, "w") as f:
            f.write(script)
        rc, out, err = run_cmd([hx, "pool", path], timeout=timeout, env=ENV)
    finally:
        os.unlink(path)
    pr.rc, pr.err = rc, err.decode(errors="replace")[-3000:]
    for line in out.decode(errors="replace").splitlines():
        t = line.split(" ")
        if t[0] == "val":
            pr.vals[int(t[1])] = t[2:]
        elif t[0] == "meta":
            pr.meta[int(t[1])] = dict(zip(t[2::2], t[3::2]))
        elif t[0] == "capi":
            pr.capi[int(t[1])] = t[2]
        elif t[0] == "adr":
            pr.adrs[int(t[1])] = t[2:]
        elif t[0] == "law":
            pr.laws.append(line)
        elif t[0] == "summary":
            pr.summary = dict(zip(t[1::2], t[2::2]))
        elif t[0] == "error":
            pr.err = line + "\n" + pr.err
    return pr


def mini_script(gen_prelude, sources):
    lines = ["(def pool @[])", "(defn P [x] (array/push pool x))"] + list(gen_prelude) + ["(P %s)" % s for s in sources] + ["pool"]
    return "\n".join(lines) + "\n"


def run(ctx, scripts=None):
    quick = ctx.tier == "quick"
    broken = []
    # ------------------------------------------------------------------ (A) regenerate
    try:
        ctx.build.boot()
        ctx.gen("Value.lean", gen_value.render(ctx.build.tree))
        ctx.gen("ValueAbs.lean", gen_value.render_abs(ctx.build.tree))
        ctx.gen("ValueTrav.lean", gen_value.render_trav(ctx.build.tree))
    except ExtractError as e:
        broken.append("translator tools/gen/value.py: %s" % e)
        ctx.broken.append(broken[-1])
    except BuildError as e:
        ctx.violation("build-failed", {"kind": "build", "error": str(e)}, found=False, what="tree does not build")
        return ctx.finish("proof", {"evaluations": 0, "distinct_nontrivial": 0})
    hooked = []
    try:
        hooked = gen_value.abstract_hooks(ctx.build.tree)
        uncovered = [h for h in hooked if h[1] not in ("core/s64", "core/u64")]
        if uncovered:
            broken.append("abstract types with compare/hash hooks not covered by the pool: %r" % uncovered)
            ctx.broken.append(broken[-1])
    except Exception as e:  # shape of an initialiser not understood: a broken tie, not a crash of the check
        broken.append("translator abstract_hooks: %s" % e)
        ctx.broken.append(broken[-1])
    # ------------------------------------------------------------------ (B,C) kernel check + audit
    broken += ctx.obligations("JanetModel.Props.C03", THEOREMS)
    if not quick:
        ok, log = ctx.leanchecker("JanetModel.Props.C03")
        if not ok:
            broken.append("leanchecker JanetModel.Props.C03: " + log[-300:])
    exe = ctx.driver()
    try:
        hx = ctx.build.harness("asan", "c03pool", [HARNESS_SRC])
    except BuildError as e:
        ctx.violation("harness-build", {"kind": "build", "error": str(e)[-2000:]}, found=False,
                      what="harness/C03/pool.c does not compile against the current tree")
        return ctx.finish("proof", {"evaluations": 0, "distinct_nontrivial": 0})
    # ------------------------------------------------------------------ pools: corpus first, then generated
    pg = _poolgen()
    pools = []
    if scripts is None:
        for fn in sorted(os.listdir(CORPUS)) if os.path.isdir(CORPUS) else []:
            if fn.endswith(".janet"):
                src = open(os.path.join(CORPUS, fn)).read()
                pools.append(("corpus/" + fn, pg.literal_prelude() + "\n" + src, None, [pg.literal_prelude()]))
        n_pools = 1 if quick else 3
        if broken:
            n_pools += 2     # something no longer checks: search harder
        for p in range(n_pools):
            g = pg.Gen(ctx.rng.fork("pool%d" % p), scale=1 if quick else 2).build(34 if quick else 90)
            script, labels = g.script()
            pools.append(("generated-%d" % p, script, labels, g.prelude))
    else:
        pools = scripts
    tot = dict(litforms=0, pairs=0, triples=0, vmcalls=0, values=0, model_lines=0, model_diffs=0, classes=0, multi_classes=0, layouts=0, symbols=0)
    recipe_hist, type_hist, cap_hist, abs_types = {}, {}, {}, {}
    samples, diffs_all, direct = [], [], []
    for name, script, labels, prelude in pools:
        pr = run_pool(hx, script, labels)
        n = len(pr.vals)
        if pr.rc != 0 or pr.summary is None or len(pr.capi) != n:
            # crash / sanitizer report while evaluating or comparing: that is a result
            ctx.violation("pool-crash", {"kind": "crash", "pool": name, "rc": pr.rc, "stderr": pr.err, "script": script},
                          what="harness crashed / sanitizer report on pool %s (rc=%s): %s" % (name, pr.rc, pr.err[-300:]))
            continue
        if labels is None:
            labels = [("corpus", "entry %d" % i) for i in range(n)]
        for k in ("pairs", "triples", "vmcalls", "litforms"):
            tot[k] += int(pr.summary[k])
        tot["values"] += n
        tot["symbols"] += int(pr.summary["symbols"])
        terms = {i: parse_term(pr.vals[i])[0] for i in range(n)}
        for i in range(n):
            lab = labels[i][0] if i < len(labels) else "?"
            recipe_hist[lab] = recipe_hist.get(lab, 0) + 1
            type_hist[terms[i][0]] = type_hist.get(terms[i][0], 0) + 1
            if terms[i][0] == "S":
                cap_hist[len(terms[i][1])] = cap_hist.get(len(terms[i][1]), 0) + 1

        def info(i):
            return {"index": i, "recipe": labels[i][0] if i < len(labels) else "?", "source": labels[i][1] if i < len(labels) else "?",
                    "value": describe(terms[i])[:300], "term": " ".join(pr.vals[i])[:600], "hash": pr.meta[i].get("hash")}

        def minimise(idx, lawname):
            """try to reproduce the law violation on a script with only the values involved"""
            if prelude is None:
                return script, False
            ms = mini_script(prelude, [labels[i][1] for i in idx])
            r2 = run_pool(hx, ms, None, timeout=120)
            if any(l.split(" ")[1] == lawname for l in r2.laws):
                return ms, True
            return script, False
        # ---- (E1) laws found violated by the harness (all pairs, all triples, VM operators, stored fields, symbol identity)
        seen_laws = set()
        for l in pr.laws:
            t = l.split(" ")
            lawname = t[1]
            if lawname in seen_laws:
                continue
            seen_laws.add(lawname)
            idx = [int(x) for x in t[2:5] if int(x) >= 0 and int(x) < n] if lawname not in ("symbol-identity",) else []
            if lawname.startswith("struct-") or lawname.startswith("tuple-") or lawname == "vm-hash" or lawname.startswith("vm-literal"):
                idx = idx[:1]
            extra = ""
            if lawname.startswith("vm-literal") and len(t) > 5:
                # which literal / compiled shape: reconstruct the concrete expression
                li = int(t[3])
                code = t[5][5:] if t[5].startswith("code=") else "?"
                lit = pg.LITERALS[li] if 0 <= li < len(pg.LITERALS) else "?"
                shape, _, opc = code.partition("/")
                opname = dict(pg.OPS).get(opc.lstrip("r").split("-")[-1], opc)
                xsrc = labels[idx[0]][1][:120] if idx and idx[0] < len(labels) else "x"
                expr = {"inline": "(%s x %s)", "if": "(if (%s x %s) true false)", "while": "(while (%s x %s) ...)", "apply": "(apply %s [x %s])"}.get(shape, "(%s x %s)")
                if opc.startswith("r") and opc not in ("rcmp",):
                    expr = expr.replace("x %s", "%s x")
                extra = " -- form %s: %s with literal %s and x = %s; %s" % (code, expr % (opname, lit) if "%s" in expr else expr, lit, xsrc, " ".join(t[6:]))
            rs, small = minimise(idx, lawname) if idx else (script, False)
            direct.append(lawname)
            ctx.violation("law:" + lawname, {"kind": "law", "law": lawname, "line": l, "pool": name, "values": [info(i) for i in idx],
                                             "script": rs, "minimised": small, "replay_law": lawname},
                          what="law `%s` fails on the implementation: %s%s" % (lawname, "; ".join("%s = %s" % (info(i)["source"][:80], info(i)["value"][:80]) for i in idx) or l, extra))
        # ---- (E2) content equality recomputed from the serialised trees
        can = {i: canon(terms[i]) for i in range(n)}
        lay = {i: layout(terms[i]) for i in range(n)}
        nan = {i: pr.meta[i].get("nan") == "1" for i in range(n)}
        classes = {}
        for i in range(n):
            classes.setdefault(can[i], []).append(i)
        tot["classes"] += len(classes)
        tot["multi_classes"] += sum(1 for c in classes.values() if len(c) > 1)
        reported = set()
        for i in range(n):
            if nan[i]:
                continue
            row = pr.capi[i]
            ci = can[i]
            for j in range(n):
                if nan[j]:
                    continue
                want = ci == can[j]
                got = row[j] in "=LG"
                if want != got and "content" not in reported:
                    reported.add("content")
                    kind = "same-content-not-equal" if want else "different-content-equal"
                    rs, small = minimise([i, j], "never") if False else (mini_script(prelude, [labels[i][1], labels[j][1]]) if prelude is not None else script, False)
                    r2 = run_pool(hx, rs, None, timeout=120) if prelude is not None else None
                    if r2 is not None and r2.capi and len(r2.capi) == 2 and (r2.capi[0][1] in "=LG") == got:
                        small = True
                    else:
                        rs = script
                    direct.append(kind)
                    ctx.violation("content:" + kind, {"kind": "content-equality", "pool": name, "values": [info(i), info(j)], "expected_equal": want,
                                                      "impl_equal": got, "script": rs, "minimised": small, "pair": [0, 1] if small else [i, j]},
                                  what="%s: (= %s %s) is %s on the implementation; values %s and %s" % (kind, labels[i][1][:100], labels[j][1][:100], got, describe(terms[i])[:100], describe(terms[j])[:100]))
                if want and lay[i] != lay[j] and "layout" not in reported:
                    reported.add("layout")
                    direct.append("layout")
                    ctx.violation("content:struct-layout-differs", {"kind": "layout", "pool": name, "values": [info(i), info(j)], "script": script},
                                  what="same content, different slot arrays: %s vs %s" % (labels[i][1][:100], labels[j][1][:100]))
                if want and pr.meta[i]["hash"] != pr.meta[j]["hash"] and "hash" not in reported:
                    reported.add("hash")
                    direct.append("hash")
                    ctx.violation("content:same-content-different-hash", {"kind": "hash", "pool": name, "values": [info(i), info(j)],
                                                                          "script": mini_script(prelude, [labels[i][1], labels[j][1]]) if prelude is not None else script},
                                  what="same content, different hash: %s (%s) vs %s (%s)" % (labels[i][1][:100], pr.meta[i]["hash"], labels[j][1][:100], pr.meta[j]["hash"]))
                # boxed integers of the same type: the compare hook must be the integer order
                if terms[i][0] == "a" and terms[j][0] == "a" and terms[i][1] == terms[j][1] and terms[i][1] in ("core/s64", "core/u64") \
                        and "intorder" not in reported:
                    sgn = terms[i][1] == "core/s64"
                    a, b = [(v - 2**64 if (sgn and v >= 2**63) else v) for v in (terms[i][2], terms[j][2])]
                    wantc = "<" if a < b else (">" if a > b else "=")
                    if row[j] != wantc:
                        reported.add("intorder")
                        direct.append("intorder")
                        ctx.violation("content:abstract-integer-order", {"kind": "abstract-order", "pool": name, "values": [info(i), info(j)], "expected": wantc, "impl": row[j],
                                                                         "script": mini_script(prelude, [labels[i][1], labels[j][1]]) if prelude is not None else script},
                                      what="compare of %s and %s gives %s, integer order says %s: (cmp %s %s)" % (describe(terms[i]), describe(terms[j]), row[j], wantc, labels[i][1], labels[j][1]))
                # numbers: compare is IEEE order
                if terms[i][0] == "n" and terms[j][0] == "n" and "numorder" not in reported:
                    a, b = fl(terms[i][1]), fl(terms[j][1])
                    wantc = "<" if a < b else (">" if a > b else "=")
                    if row[j] != wantc:
                        reported.add("numorder")
                        direct.append("numorder")
                        ctx.violation("content:number-order", {"kind": "number-order", "pool": name, "values": [info(i), info(j)], "expected": wantc, "impl": row[j],
                                                               "script": mini_script(prelude, [labels[i][1], labels[j][1]]) if prelude is not None else script},
                                      what="compare of numbers %r and %r gives %s, IEEE order says %s" % (a, b, row[j], wantc))
        # ---- (D) correspondence with the Lean model
        if exe:
            # NaN is part of the model type (F64 = all 64-bit patterns, IEEE == / <): values holding NaN go through the model too
            ids = [i for i in range(n) if pr.meta[i].get("model") == "1"]
            tot["nan_values_in_model"] = tot.get("nan_values_in_model", 0) + sum(1 for i in ids if nan[i])
            pos = {i: p for p, i in enumerate(ids)}
            lines = ["val %d %s" % (pos[i], " ".join(pr.vals[i])) for i in ids] + ["row %d" % pos[i] for i in ids]
            # struct layout: rebuild every distinct struct from its occupied slots in several insertion orders
            lay_cases = []
            seen_lay = set()
            rng = ctx.rng.fork("layout-" + name)
            for i in ids:
                t = terms[i]
                if t[0] != "S" or lay[i] in seen_lay:
                    continue
                seen_lay.add(lay[i])
                occ = [(a, b) for a, b in t[1] if a[0] != "nil"]
                orders = [occ, occ[::-1]]
                for _ in range(2 if quick else 6):
                    o = list(occ)
                    rng.shuffle(o)
                    orders.append(o)
                expect = " ".join(pr.vals[i])
                for o in orders:
                    lay_cases.append((i, expect, "structof %d %d %s %s" % (len(o), len(o), " ".join(show_term(a) + " " + show_term(b) for a, b in o),
                                                                           show_term(t[2]) if t[2] is not None else "nil")))
                if occ and not nan[i]:   # (a key holding NaN is not `=` to itself: the duplicate would be a second entry)
                    # announced count too large, a duplicate key first (overwritten later), a nil value and a nil key: janet_struct_end rebuilds
                    o = list(occ)
                    rng.shuffle(o)
                    seq = [(o[0][0], ("k", b"c03-overwritten"))] + o + [(("k", b"c03-dropped"), ("nil",)), (("nil",), ("b", True))]
                    lay_cases.append((i, expect, "structof %d %d %s %s" % (len(seq), len(seq), " ".join(show_term(a) + " " + show_term(b) for a, b in seq),
                                                                           show_term(t[2]) if t[2] is not None else "nil")))
            lines += [c[2] for c in lay_cases]
            tot["layouts"] += len(lay_cases)
            # string.c mirrored statement by statement (Value/StringLoop.lean): all ordered pairs of (up to 70) pool strings
            strs = [i for i in ids if terms[i][0] == "s"][:70]
            str_cases = [(i, j) for i in strs for j in strs]
            lines += ["strcmp %s %s" % (terms[i][1].hex() or "-", terms[j][1].hex() or "-") for i, j in str_cases]
            tot["string_loop_pairs"] = tot.get("string_loop_pairs", 0) + len(str_cases)
            # the ITERATIVE mirrors of janet_equals / janet_compare (explicit traversal stack, Value/Traverse.lean): rows of container values
            conts = [i for i in ids if terms[i][0] in "TS"]
            step = max(1, len(conts) // (120 if quick else 400))
            iter_rows = conts[::step] if name.startswith("generated") else conts
            iter_off = len(lines)
            lines += ["iterrow %d" % pos[i] for i in iter_rows]
            tot["iterative_rows"] = tot.get("iterative_rows", 0) + len(iter_rows)
            mout = ctx.model(lines, exe=exe)
            tot["model_lines"] += len(lines)
            diffs = []
            if len(mout) != len(lines):
                diffs.append({"op": "driver", "impl": "%d lines" % len(lines), "model": "%d lines" % len(mout)})
            else:
                for p, i in enumerate(ids):
                    want = "h %s t" % pr.meta[i]["hash"]
                    if not mout[p].startswith(want + " "):
                        diffs.append({"op": "hash " + labels[i][1][:200], "value": describe(terms[i])[:200], "impl": pr.meta[i]["hash"], "model": mout[p]})
                # janet_equals short-cuts on pointer identity (`t1 == t2`, `s1 == s2`); that is invisible on NaN-free values
                # (= is reflexive there: laws_on_nan_free_values) but not when BOTH sides hold a NaN and share an object.  For
                # such pairs only the janet_compare half of the character is compared (janet_compare has no short-cut).
                cmp_only = {"L": "<", "G": ">", "Z": "="}
                for p, i in enumerate(ids):
                    irow = "".join(pr.capi[i][j] for j in ids)
                    mrow = mout[len(ids) + p]
                    if nan[i] and len(mrow) == len(irow):
                        irow = "".join(cmp_only.get(ch, ch) if nan[j] else ch for ch, j in zip(irow, ids))
                        mrow = "".join(cmp_only.get(ch, ch) if nan[j] else ch for ch, j in zip(mrow, ids))
                    if irow != mrow:
                        q = next((q for q in range(len(ids)) if q >= len(mrow) or irow[q] != mrow[q]), 0)
                        j = ids[q]
                        diffs.append({"op": "equals/compare", "a": info(i), "b": info(j), "impl": irow[q], "model": mrow[q] if q < len(mrow) else "?"})
                for c, o in zip(lay_cases, mout[2 * len(ids):]):
                    if c[1] != o:
                        diffs.append({"op": "struct layout", "value": info(c[0]), "insertion": c[2][:600], "impl": c[1][:600], "model": o[:600]})
                for (i, j), o in zip(str_cases, mout[2 * len(ids) + len(lay_cases):]):
                    if pr.capi[i][j] != o:
                        diffs.append({"op": "janet_string_compare / janet_string_equal (statement-level mirror)", "a": info(i), "b": info(j), "impl": pr.capi[i][j], "model": o})
                for i, o in zip(iter_rows, mout[iter_off:]):
                    orow, _, odepth = o.partition(" ")
                    tot["iterative_max_stack"] = max(tot.get("iterative_max_stack", 0), int(odepth) if odepth.isdigit() else 0)
                    irow = "".join(pr.capi[i][j] for j in ids)
                    if nan[i] or any(nan[j] for j in ids):
                        irow = "".join(cmp_only.get(ch, ch) if (nan[i] and nan[j]) else ch for ch, j in zip(irow, ids))
                        orow = "".join(cmp_only.get(ch, ch) if (nan[i] and nan[j]) else ch for ch, j in zip(orow, ids))
                    tot["iterative_pairs"] = tot.get("iterative_pairs", 0) + len(irow)
                    if irow != orow:
                        q = next((q for q in range(len(ids)) if q >= len(orow) or irow[q] != orow[q]), 0)
                        diffs.append({"op": "janet_equals / janet_compare, iterative mirror (explicit traversal stack)", "a": info(i), "b": info(ids[q]),
                                      "impl": irow[q], "model": orow[q] if q < len(orow) else "?"})
            # ---- values CONTAINING ABSTRACTS: the model with abstract values (Value/Abstract.lean: janet_compare_abstract statement by
            #      statement, hooks by type name from the regenerated table, type pointers / boxed words / payloads as serialised), in the
            #      company of a sample of abstract-free values so that rows cross every type
            aids = [i for i in range(n) if pr.meta[i].get("amodel") == "1" and not nan[i]]
            if aids and len(mout) == len(lines):
                plain = [i for i in ids if not nan[i]]
                comp = plain[::max(1, len(plain) // (60 if quick else 200))]
                aset = aids + comp
                alines = ["aval %d %s" % (p, " ".join(pr.vals[i])) for p, i in enumerate(aset)] + ["arow %d" % p for p in range(len(aset))]
                aout = ctx.model(alines, exe=exe)
                tot["model_lines"] += len(alines)
                tot["abstract_values_in_model"] = tot.get("abstract_values_in_model", 0) + len(aids)
                tot["abstract_model_pairs"] = tot.get("abstract_model_pairs", 0) + len(aset) ** 2
                for i in aids:
                    for nm in set(_abs_names(terms[i])):
                        abs_types[nm] = abs_types.get(nm, 0) + 1
                if len(aout) != len(alines):
                    diffs.append({"op": "driver (aval/arow)", "impl": "%d lines" % len(alines), "model": "%d lines" % len(aout)})
                else:
                    for p, i in enumerate(aset):
                        want = "h %s t" % pr.meta[i]["hash"]
                        if not aout[p].startswith(want + " "):
                            diffs.append({"op": "hash (model with abstracts) " + labels[i][1][:200], "value": describe(terms[i])[:200], "impl": pr.meta[i]["hash"], "model": aout[p]})
                        irow = "".join(pr.capi[i][j] for j in aset)
                        mrow = aout[len(aset) + p]
                        if irow != mrow:
                            q = next((q for q in range(len(aset)) if q >= len(mrow) or irow[q] != mrow[q]), 0)
                            diffs.append({"op": "equals/compare (model with abstracts: janet_compare_abstract)", "a": info(i), "b": info(aset[q]),
                                          "impl": irow[q], "model": mrow[q] if q < len(mrow) else "?"})
            # ---- janet_equals WITH its pointer short-cuts (`t1 == t2`, `s1 == s2`; Value/PtrShortcut.lean `equalsP` on values that carry
            #      the addresses of their tuple / struct objects): every value holding NaN (the one place where the short-cut is
            #      observable: a tuple holding NaN is `=` to ITSELF, and to any tuple sharing the object that holds it) and every value
            #      containing an abstract, and the `shared:` family (values sharing tuple / struct objects: the short-cut fires in the
            #      middle of a traversal); pairs where BOTH sides hold NaN are no longer masked here
            pset = [i for i in range(n) if i in pr.adrs and (nan[i] or pr.meta[i].get("amodel") == "1" or (i < len(labels) and labels[i][0].startswith("shared:")))]
            if pset and len(mout) == len(lines):
                plines = ["pval %d %d %s %s" % (p, len(pr.adrs[i]), " ".join(pr.adrs[i]), " ".join(pr.vals[i])) for p, i in enumerate(pset)]
                plines = [" ".join(l.split()) for l in plines] + ["prow %d" % p for p in range(len(pset))]
                pout = ctx.model(plines, exe=exe)
                tot["model_lines"] += len(plines)
                tot["pointer_shortcut_pairs"] = tot.get("pointer_shortcut_pairs", 0) + len(pset) ** 2
                nn = [i for i in pset if nan[i]]
                tot["pointer_shortcut_pairs_both_nan"] = tot.get("pointer_shortcut_pairs_both_nan", 0) + len(nn) ** 2
                if len(pout) != len(plines) or any(o != "ok" for o in pout[:len(pset)]):
                    diffs.append({"op": "driver (pval/prow)", "impl": "%d lines" % len(plines), "model": "%d lines, first %r" % (len(pout), [o for o in pout[:len(pset)] if o != "ok"][:1])})
                else:
                    for p, i in enumerate(pset):
                        irow = "".join("e" if pr.capi[i][j] in "=LG" else "n" for j in pset)
                        mrow = pout[len(pset) + p]
                        tot["pointer_shortcut_visible"] = tot.get("pointer_shortcut_visible", 0) + sum(1 for q, j in enumerate(pset) if nan[i] and nan[j] and irow[q] == "e")
                        if irow != mrow:
                            q = next((q for q in range(len(pset)) if q >= len(mrow) or irow[q] != mrow[q]), 0)
                            diffs.append({"op": "janet_equals with pointer short-cuts (equalsP)", "a": info(i), "b": info(pset[q]),
                                          "impl": irow[q], "model": mrow[q] if q < len(mrow) else "?"})
            tot["model_diffs"] += len(diffs)
            if diffs:
                diffs_all += diffs[:5]
                broken.append("correspondence model/impl on pool %s: %d differing results, first %r" % (name, len(diffs), diffs[0]))
                ctx.broken.append(broken[-1])
        if len(samples) < 8:
            for i in list(range(0, n, max(1, n // 4)))[:4]:
                samples.append("%s  =>  %s" % (labels[i][1][:120], describe(terms[i])[:120]))
    # ------------------------------------------------------------------ symbol cache scenario (direct)
    sym_summary = None
    rounds, per = (5, 2500) if quick else (12, 6000)
    if broken:
        rounds *= 2
    symseed = ctx.rng.fork("symcache").next() % (1 << 62)
    rc, out, err = run_cmd([hx, "symcache", str(symseed), str(rounds), str(per)], timeout=1500, env=ENV)
    out = out.decode(errors="replace")
    symlaws = [l for l in out.splitlines() if l.startswith("law ")]
    for l in out.splitlines():
        if l.startswith("summary symcache"):
            t = l.split(" ")
            sym_summary = dict(zip(t[2::2], t[3::2]))
    if symlaws:
        direct.append("symcache")
        fl0 = _first_law(symlaws)
        ctx.violation("law:" + fl0.split(" ")[1], {"kind": "symcache", "laws": [fl0] + symlaws[:20], "args": ["symcache", symseed, rounds, per], "seed": ctx.seed,
                                                   "rc": rc, "stderr": err.decode(errors="replace")[-1500:]},
                      what="symbol cache (core environment loaded, real collections; re-run: pool symcache %d %d %d): %s%s" % (
                          symseed, rounds, per, fl0, "" if rc == 0 else " (then the harness crashed, rc=%s)" % rc))
    elif rc != 0 or sym_summary is None:
        ctx.violation("symcache-crash", {"kind": "crash", "rc": rc, "stderr": err.decode(errors="replace")[-2000:], "stdout": out[-1000:]},
                      what="symbol cache scenario crashed (rc=%s)" % rc)
    # ------------------------------------------------------------------ symbol-cache histories on a fresh VM (direct + model), session 4
    nh, nho, nhm = (60, 150, 30) if quick else (500, 220, 200)
    if broken:
        nh *= 3
    hseed = ctx.rng.fork("symhist").next() % (1 << 62)
    sh = run_symhist(ctx, hx, exe, hseed, nh, nho, nhm)
    symhist_summary = sh["summary"]
    if sh["laws"]:
        fl0 = _first_law(sh["laws"])
        t = fl0.split(" ")
        hno = int(t[2]) if t[2].lstrip("-").isdigit() else -1
        direct.append("symhist")
        ctx.violation("symhist:" + t[1], {"kind": "symhist", "laws": [fl0] + sh["laws"][:20], "args": ["symhist", hseed, nh, nho], "history": hno,
                                          "history_ops": _show_hist_ops(sh["hops"].get(hno, []))[:400], "rc": sh["rc"], "stderr": sh["err"]},
                      what="symbol cache history on a fresh VM (janet_symbol / janet_keyword / janet_symbol_gen / janet_collect; re-run: pool symhist %d %d %d, "
                           "history %d): %s%s" % (hseed, nh, nho, hno, fl0, "" if sh["rc"] == 0 else " (then the harness crashed, rc=%s)" % sh["rc"]))
    elif sh["rc"] != 0 or symhist_summary is None:
        ctx.violation("symhist-crash", {"kind": "crash", "rc": sh["rc"], "stderr": sh["err"], "args": ["symhist", hseed, nh, nho]},
                      what="symbol cache history scenario crashed (rc=%s)" % sh["rc"])
    tot["model_lines"] += sh["model_ops"]
    tot["model_diffs"] += len(sh["diffs"])
    if sh["diffs"]:
        diffs_all += sh["diffs"][:3]
        broken.append("correspondence model/impl on symbol-cache histories: %d differing histories, first %r" % (len(sh["diffs"]), sh["diffs"][0]))
        ctx.broken.append(broken[-1])
    # ------------------------------------------------------------------ struct layout scenario (direct + model)
    lay_summary = None
    nsets, maxperm, nmodel = (2500, 200, 40) if quick else (30000, 400, 200)
    if broken:
        nsets *= 3
    rc, out, err = run_cmd([hx, "layout", str(ctx.rng.fork("layout").next() % (1 << 62)), str(nsets), str(maxperm), str(nmodel)], timeout=3000, env=ENV)
    out = out.decode(errors="replace")
    lsets, lfails, cur = [], [], None
    for l in out.splitlines():
        t = l.split(" ")
        if t[0] == "lset":
            cur = {"keys": [], "ref": None}
            lsets.append(cur)
        elif t[0] == "lkey" and cur is not None:
            cur["keys"].append(parse_term(t[1:])[0])
        elif t[0] == "lref" and cur is not None:
            cur["ref"] = " ".join(t[1:])
        elif t[0] == "lfail":
            lfails.append({"via": " ".join(t[2:]), "keys": [], "order": None})
        elif t[0] == "lfkey" and lfails:
            lfails[-1]["keys"].append(parse_term(t[1:])[0])
        elif t[0] == "lforder" and lfails:
            lfails[-1]["order"] = [int(x) for x in t[1:]]
        elif l.startswith("summary layout"):
            cut = t.index("sizes") if "sizes" in t else len(t)
            lay_summary = dict(zip(t[2:cut:2], t[3:cut:2]))
            lay_summary["set_sizes"] = " ".join(t[cut + 1:])
    laylaws = [l for l in out.splitlines() if l.startswith("law ")]

    def term_src(x):
        k = x[0]
        if k == "n":
            return "(nb 0x%X 0x%X)" % (x[1] >> 32, x[1] & 0xFFFFFFFF)
        if k == "s":
            return pg.jstr(x[1])
        if k == "k":
            return "(keyword %s)" % pg.jstr(x[1])
        if k == "y":
            return "(symbol %s)" % pg.jstr(x[1])
        return "nil"
    if lfails:
        f = lfails[0]
        n = len(f["keys"])
        o1, o2 = list(range(n)), f["order"]
        kvtxt = [" ".join("%s %d" % (term_src(f["keys"][i]), i + 1) for i in o) for o in (o1, o2)]
        ways = {"struct": "(struct %s)", "table/to-struct": "(table/to-struct (table %s))", "freeze": "(freeze (table %s))",
                "unmarshal": "(unmarshal (marshal (struct %s)))", "parse": "(parse (string/format \"%%j\" (struct %s)))",
                "struct-splice-kvs": "(struct ;(kvs (struct %s)))", "merge/to-struct": "(table/to-struct (merge @{} (struct %s)))"}
        # reference: janet_struct_put in the order 0..n-1; the other: the order / constructor on which the harness saw the difference
        srcs = ["(struct %s)" % kvtxt[0], ways.get(f["via"], "(struct %s)") % kvtxt[1]]
        ms = mini_script([], srcs)
        r2 = run_pool(hx, ms, None, timeout=120)
        confirmed = bool(r2.capi) and len(r2.capi) == 2 and r2.capi[0][1] != "="
        direct.append("layout-order")
        ctx.violation("layout:order-dependent", {"kind": "layout-order", "via": f["via"], "keys": [describe(k) for k in f["keys"]], "order_a": o1, "order_b": o2,
                                                 "script": ms, "confirmed_by_pool_run": confirmed, "laws": laylaws[:5], "failing_sets": lay_summary and lay_summary.get("failing_sets")},
                      what="struct layout depends on insertion order (via %s): (= %s %s) is false / slot arrays differ" % (f["via"], srcs[0][:150], srcs[1][:150]))
    elif laylaws:
        direct.append("layout")
        ctx.violation("law:" + laylaws[0].split(" ")[1], {"kind": "layout", "laws": laylaws[:10]}, what="struct layout scenario: " + laylaws[0])
    elif rc != 0 or lay_summary is None:
        ctx.violation("layout-crash", {"kind": "crash", "rc": rc, "stderr": err.decode(errors="replace")[-2000:], "stdout": out[-600:]},
                      what="struct layout scenario crashed (rc=%s)" % rc)
    # the same key sets through the model: structOf in several insertion orders must reproduce the implementation's slot array
    lay_model = 0
    if exe and lsets:
        rngl = ctx.rng.fork("layout-model")
        cases = []
        for ls in lsets:
            n = len(ls["keys"])
            kv = [(ls["keys"][i], ("n", pystruct.unpack("<Q", pystruct.pack("<d", float(i + 1)))[0])) for i in range(n)]
            orders = [list(range(n)), list(range(n))[::-1]]
            for _ in range(6 if quick else 12):
                o = list(range(n))
                rngl.shuffle(o)
                orders.append(o)
            for o in orders:
                cases.append((ls["ref"], o, "structof %d %d %s nil" % (n, n, " ".join(show_term(kv[i][0]) + " " + show_term(kv[i][1]) for i in o))))
        mo = ctx.model([c[2] for c in cases], exe=exe)
        lay_model = len(cases)
        ldiffs = [{"op": "struct layout (layout scenario)", "order": c[1], "insertion": c[2][:500], "impl": c[0][:500], "model": o[:500]} for c, o in zip(cases, mo) if c[0] != o]
        tot["model_lines"] += len(cases)
        tot["model_diffs"] += len(ldiffs)
        if ldiffs or len(mo) != len(cases):
            diffs_all += ldiffs[:3]
            broken.append("correspondence model/impl on struct layout scenario: %d differing slot arrays, first %r" % (len(ldiffs), ldiffs[:1]))
            ctx.broken.append(broken[-1])
    # ------------------------------------------------------------------ duplicate-key scenario (direct + model), session 3
    dup_summary = None
    ncases, ndmodel = (6000, 400) if quick else (80000, 3000)
    if broken:
        ncases *= 3
    dseed = ctx.rng.fork("dups").next() % (1 << 62)
    rc, out, err = run_cmd([hx, "dups", str(dseed), str(ncases), str(ndmodel)], timeout=3000, env=ENV)
    out = out.decode(errors="replace")
    dcases, cur = [], None
    for l in out.splitlines():
        t = l.split(" ")
        if t[0] == "dcase":
            cur = {"replace": int(t[1]), "count": int(t[2]), "under": t[4] == "1", "kvs": [], "ref": None}
            dcases.append(cur)
        elif t[0] == "dkv" and cur is not None:
            cur["kvs"].append(" ".join(t[1:]))
        elif t[0] == "dref" and cur is not None:
            cur["ref"] = " ".join(t[1:])
        elif l.startswith("summary dups"):
            cut = t.index("mapsizes") if "mapsizes" in t else len(t)
            dup_summary = dict(zip(t[2:cut:2], t[3:cut:2]))
            dup_summary["final_map_sizes"] = " ".join(t[cut + 1:])
    duplaws = [l for l in out.splitlines() if l.startswith("law ")]
    if duplaws:
        direct.append("dups")
        t = duplaws[0].split(" ")
        ctx.violation("dups:" + t[1], {"kind": "dups", "laws": duplaws[:10], "args": ["dups", dseed, ncases, ndmodel], "case": int(t[2])},
                      what="struct built from an insertion sequence with duplicate keys is not the struct of its final key->value map: %s "
                           "(re-run: pool dups %d %d %d, case %s)" % (duplaws[0], dseed, ncases, ndmodel, t[2]))
    elif rc != 0 or dup_summary is None:
        ctx.violation("dups-crash", {"kind": "crash", "rc": rc, "stderr": err.decode(errors="replace")[-2000:], "stdout": out[-600:]},
                      what="duplicate-key scenario crashed (rc=%s)" % rc)
    dup_model = 0
    if exe and dcases:
        lines, refs = [], []
        for dc in dcases:
            if dc["ref"] is None:
                continue
            body = "%d %s" % (len(dc["kvs"]), " ".join(dc["kvs"]))
            lines.append("structofx %d %d %s" % (dc["replace"], dc["count"], body))
            refs.append((dc, "structofx"))
            if not dc["under"]:
                # struct_by_final_map / struct_flatten_first_value_wins: same struct through the final key->value map
                lines.append("finalmap %d %s" % (dc["replace"], body))
                refs.append((dc, "finalmap"))
        mo = ctx.model(lines, exe=exe)
        dup_model = len(lines)
        ddiffs = [{"op": "duplicate keys (%s)" % how, "replace": dc["replace"], "count": dc["count"], "under_announced": dc["under"],
                   "insertion": " | ".join(dc["kvs"])[:600], "impl": dc["ref"][:500], "model": o[:500]}
                  for (dc, how), o in zip(refs, mo) if dc["ref"] != o]
        tot["model_lines"] += len(lines)
        tot["model_diffs"] += len(ddiffs)
        if ddiffs or len(mo) != len(lines):
            diffs_all += ddiffs[:3]
            broken.append("correspondence model/impl on duplicate-key scenario: %d differing slot arrays, first %r" % (len(ddiffs), ddiffs[:1]))
            ctx.broken.append(broken[-1])
    # ------------------------------------------------------------------ verdict for broken obligations
    if broken and not direct and ctx.nviol == 0:
        ctx.violation("broken:" + broken[0][:80], {"kind": "broken-obligation", "broken": broken, "first_diffs": diffs_all[:5]}, found=False,
                      what="no longer shown to hold: " + "; ".join(broken)[:700])
    cov = {
        "evaluations": tot["pairs"] + tot["triples"] + tot["vmcalls"] + tot["litforms"] + tot["model_lines"] + int((lay_summary or {}).get("builds", 0)) + int((dup_summary or {}).get("builds", 0)),
        "distinct_nontrivial": tot["classes"],
        "rule": "pool values = every recipe of every content (atoms: literal / constructor / parse / unmarshal / nb-bits; tuples and structs: see recipe histogram); "
                "non-trivial = distinct content class (python canonical form of the serialised value); laws checked on ALL ordered pairs and ALL ordered triples of each pool; "
                "VM operators (= < <= > >= not= cmp compare inline and via apply, hash) checked against the C API on all pairs; every pool value x every literal of vm_literals "
                "through every compiled shape (immediate / constant / literal-left / if / while / and / apply / let-bound / n-ary chains) against the C API",
        "samples": samples[:8],
        "pools": [p[0] for p in pools], "values": tot["values"], "pairs": tot["pairs"], "triples": tot["triples"], "vm_operator_calls": tot["vmcalls"],
        "vm_literal_shape_forms": tot["litforms"], "vm_literals": pg.LITERALS,
        "abstract_types_with_compare_or_hash_hooks": [list(h) for h in hooked],
        "values_containing_abstracts_through_model": tot.get("abstract_values_in_model", 0), "abstract_model_pairs": tot.get("abstract_model_pairs", 0),
        "abstract_type_histogram_through_model": dict(sorted(abs_types.items())),
        "equals_with_pointer_shortcuts_pairs_through_model": tot.get("pointer_shortcut_pairs", 0),
        "equals_with_pointer_shortcuts_pairs_both_holding_nan": tot.get("pointer_shortcut_pairs_both_nan", 0),
        "equals_true_only_through_the_pointer_shortcut": tot.get("pointer_shortcut_visible", 0),
        "content_classes": tot["classes"], "content_classes_with_several_constructions": tot["multi_classes"],
        "model_lines": tot["model_lines"], "model_diffs": tot["model_diffs"], "values_holding_nan_through_model": tot.get("nan_values_in_model", 0),
        "string_loop_pairs_through_model": tot.get("string_loop_pairs", 0),
        "iterative_equals_compare_rows_through_model": tot.get("iterative_rows", 0), "iterative_equals_compare_pairs": tot.get("iterative_pairs", 0),
        "iterative_model_deepest_traversal_stack": tot.get("iterative_max_stack", 0), "struct_layout_rebuilds": tot["layouts"],
        "symbols_checked_for_identity": tot["symbols"], "symcache": sym_summary,
        "symcache_histories_fresh_vm": symhist_summary, "symcache_histories_through_model": sh["model_histories"], "symcache_history_ops_through_model": sh["model_ops"],
        "struct_layout_scenario": lay_summary, "struct_layout_scenario_model_rebuilds": lay_model,
        "duplicate_key_scenario": dup_summary, "duplicate_key_scenario_model_lines": dup_model,
        "recipe_histogram": dict(sorted(recipe_hist.items())), "type_histogram": type_hist, "struct_capacity_histogram": {str(k): v for k, v in sorted(cap_hist.items())},
        "broken": broken,
    }
    ctx.say("values %d pairs %d triples %d vmcalls %d classes %d (multi %d) model lines %d diffs %d layouts %d symcache %s" % (
        tot["values"], tot["pairs"], tot["triples"], tot["vmcalls"], tot["classes"], tot["multi_classes"], tot["model_lines"], tot["model_diffs"], tot["layouts"], sym_summary))
    ctx.say("layout scenario %s model rebuilds %d; literal-shape forms %d" % (lay_summary, lay_model, tot["litforms"]))
    ctx.say("values containing abstracts through the model: %d (pairs %d) types %s" % (tot.get("abstract_values_in_model", 0), tot.get("abstract_model_pairs", 0), dict(sorted(abs_types.items()))))
    ctx.say("janet_equals with pointer short-cuts through the model: %d pairs (%d with NaN on both sides, %d of them `=` only through the short-cut)" % (
        tot.get("pointer_shortcut_pairs", 0), tot.get("pointer_shortcut_pairs_both_nan", 0), tot.get("pointer_shortcut_visible", 0)))
    ctx.say("duplicate-key scenario %s model lines %d" % (dup_summary, dup_model))
    ctx.say("symbol-cache histories %s through model: %d histories, %d ops" % (symhist_summary, sh["model_histories"], sh["model_ops"]))
    return ctx.finish("proof", cov, assumptions=[
        "NaN is excluded from the laws (property text) but is part of the model type: laws proved on the NaN-free values of JVal F64, NaN keys refused by struct put (proved), "
        "hash / compare / equals of values holding NaN compared with the implementation (content model: equals only when at most one side holds NaN; the model WITH the C's pointer "
        "short-cuts, equalsP on addressed values, on all pairs incl. both sides holding NaN); "
        "abstract values: modelled as addresses read through a memory (type pointer, payload, hooks per type); the laws are proved GIVEN lawful hooks (LawfulAbstract), the hooks "
        "of inttypes.c are proved lawful from their regenerated shapes, every other abstract type of src/core has no compare / hash hook (translator scan of all initialisers); "
        "the model assumes a hook reads only the payload at the address it is given",
        "numbers: general theorems are parametric in an abstract lawful order (LawfulNum) resp. an IEEE-like order with NaN (LawfulNaNNum); executable instance F64 = all 64-bit patterns, "
        "sign-magnitude reading for the order, NaN unordered, `+= 0.0` quiets a signalling NaN; tied to the C's double == , < and += by correspondence",
        "symbols/keywords: model compares bytes; that interning makes pointer identity = byte equality is modelled separately (Value/SymCache) and tested directly",
        "janet_maphash `& (cap-1)` modelled as `% cap` (cap = janet_tablen(2*count) is a power of two; checked by the harness on every struct)",
        "64-bit NaN-boxed build without JANET_PRF (translator checks janetconf.h)"])


def replay(ctx, path):
    r = json.load(open(path))
    print(json.dumps({k: v for k, v in r.items() if k != "script"}, indent=1)[:3000])
    if r.get("script"):
        return run(ctx, scripts=[("replay", r["script"], None, None)])
    if r.get("kind") in ("symhist", "symcache") and r.get("args"):
        ctx.build.boot()
        hx = ctx.build.harness("asan", "c03pool", [HARNESS_SRC])
        rc, out, err = run_cmd([hx] + [str(a) for a in r["args"]], timeout=3000, env=ENV)
        laws = [l for l in out.decode(errors="replace").splitlines() if l.startswith("law ")]
        for l in laws[:10]:
            print(l)
        if laws or rc != 0:
            fl0 = _first_law(laws) if laws else None
            ctx.violation("%s:%s" % ("symhist" if r["kind"] == "symhist" else "law", fl0.split(" ")[1] if fl0 else "crash"), dict(r, laws=laws[:10]),
                          what="replay: %s" % (fl0 if fl0 else "rc=%s" % rc))
        return ctx.finish("proof", {"evaluations": int(r["args"][2]), "distinct_nontrivial": int(r["args"][2]), "rule": "replay of a symbol-cache scenario", "samples": laws[:3]})
    if r.get("kind") == "dups" and r.get("args"):
        # re-run the duplicate-key scenario with the recorded seed / sizes on the current tree
        ctx.build.boot()
        hx = ctx.build.harness("asan", "c03pool", [HARNESS_SRC])
        rc, out, err = run_cmd([hx] + [str(a) for a in r["args"]], timeout=3000, env=ENV)
        laws = [l for l in out.decode(errors="replace").splitlines() if l.startswith("law ")]
        for l in laws[:10]:
            print(l)
        if laws or rc != 0:
            ctx.violation("dups:" + (laws[0].split(" ")[1] if laws else "crash"), dict(r, laws=laws[:10]), what="replay: %s" % (laws[0] if laws else "rc=%s" % rc))
        return ctx.finish("proof", {"evaluations": int(r["args"][2]), "distinct_nontrivial": int(r["args"][2]), "rule": "replay of the duplicate-key scenario", "samples": laws[:3]})
    return run(ctx)
