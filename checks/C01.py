"""C01 - garbage collection is transparent and never frees a reachable object.

Pipeline: (A) regenerate Gen/GC.lean from gc.c / gc.h / janet.h -> (B,C) kernel re-checks Props/C01 + axiom audit ->
(D) graph-level correspondence: at every collection the harness (harness/C01/gch.c, the real client + hooks) snapshots the
heap with an independent edge/root enumerator; mark bits must equal reachability (checked in the harness on every
collection and by the Lean model driver jm_c01 on sampled dumps, which also runs the model's mark with the depth/spill
mechanism and the model's sweep against the real post-sweep block lists) -> (E) behaviour-level oracle: programs x
GC schedules x {asan, asan_debugstack}: identical stdout/stderr/exit status, sanitizer silent.
"""
import concurrent.futures as cf
import glob
import json
import os
import re
import resource
import shutil
import tempfile
import time

from vlib.core import run_cmd, VERIF
from vlib.build import BuildError
from harness.C01 import gen as pgen
from harness.C01 import rootsgen
from tools.gen.csrc import ExtractError

THEOREMS = [
    "JanetModel.Props.C01.mark_eq_reachable",
    "JanetModel.Props.C01.mark_terminates",
    "JanetModel.Props.C01.collect_keeps_reachable",
    "JanetModel.Props.C01.collect_frees_only_unmarked",
    "JanetModel.Props.C01.collect_frees_unreachable",
    "JanetModel.Props.C01.collect_closed",
    "JanetModel.Props.C01.gc_transparent",
    "JanetModel.Props.C01.mark_eq_reachable_impl",
    "JanetModel.Props.C01.markSites_as_modelled",
    "JanetModel.Props.C01.gen_facts",
    "JanetModel.Props.C01.mark_typed_calls_acyclic",
    "JanetModel.Props.C01.collect_preserves_env_mode",
    "JanetModel.Props.C01.detach_iff_finished",
    # session 3: root-set protocol, suspension, transparency with C locals under janet_gclock
    "JanetModel.Props.C01.roots_refine_multiset",
    "JanetModel.Props.C01.gcunroot_removes_exactly_one",
    "JanetModel.Props.C01.gcunrootall_removes_all",
    "JanetModel.Props.C01.gcunrootall_partial",
    "JanetModel.Props.C01.gcunrootall_pinned_leaves_occurrence",
    "JanetModel.Props.C01.root_capacity_invariant",
    "JanetModel.Props.C01.reachable_roots_perm",
    "JanetModel.Props.C01.marked_roots_perm",
    "JanetModel.Props.C01.collect_suspended_noop",
    "JanetModel.Props.C01.collect_epilogue",
    "JanetModel.Props.C01.lock_unlock_restores",
    "JanetModel.Props.C01.suspended_region_keeps_heap",
    "JanetModel.Props.C01.gc_transparent_locked",
    # session 3: weak containers at slot level
    "JanetModel.Props.C01.weak_table_survives_iff_reachable",
    "JanetModel.Props.C01.weak_array_survives_iff_reachable",
    "JanetModel.Props.C01.weak_table_wf_preserved",
    "JanetModel.Props.C01.weak_kinds",
    "JanetModel.Props.C01.dropSlot_iff",
    # session 4: the mark phase's ring-buffer walks (run queue, channel pending queues, channel items)
    "JanetModel.Props.C01.ring_walks_as_modelled",
    "JanetModel.Props.C01.mark_ring_walk_visits_all",
    "JanetModel.Props.C01.mark_ring_walk_all_histories",
    # session 4: the sweep's side effect on the symbol cache (collect composed with the symbol-cache model)
    "JanetModel.Props.C01.symcache_facts_agree",
    "JanetModel.Props.C01.collect_keeps_symcache_tied",
    "JanetModel.Props.C01.intern_same_after_collect",
    "JanetModel.Props.C01.symcache_no_dangling_after_collect",
    # session 4: the conditional mark of parsermark over the regenerated table of writes to ->error / ->flag
    "JanetModel.Props.C01.parser_sites_keep_inv",
    "JanetModel.Props.C01.parser_error_marked_iff_heap",
    # session 4b: which C functions can be interrupted by a collection (call-graph certificate over the regenerated LLVM-IR
    # call graph), the builder family and every _begin .. _end window; the collecting functions' windows stay listed (_partial)
    "JanetModel.Props.C01.callgraph_maycollect_closed",
    "JanetModel.Props.C01.nocollect_sound",
    "JanetModel.Props.C01.alloc_cannot_collect",
    "JanetModel.Props.C01.builder_family_cannot_collect",
    "JanetModel.Props.C01.family_in_closure",
    "JanetModel.Props.C01.begin_end_windows_covered",
    "JanetModel.Props.C01.callgraph_unlocked_closed",
    "JanetModel.Props.C01.collect_chain_passes_gclock",
    "JanetModel.Props.C01.c_local_windows_partial",
]
H = os.path.join(VERIF, "harness/C01")
SOURCES = [os.path.join(H, x) for x in ("gch.c", "w_ev.c", "w_net.c", "w_os.c", "w_filewatch.c", "w_ffi.c", "w_symcache.c")]
ROOT_SOURCES = [os.path.join(H, x) for x in ("roots.c", "w_vm.c")]
ROOT_OPS = os.path.join(VERIF, "corpus/C01/roots")
EDGES = os.path.join(VERIF, "corpus/C01/edges")
BASE_ENV = dict(os.environ, ASAN_OPTIONS="detect_leaks=0:abort_on_error=0:allocator_may_return_null=1", UBSAN_OPTIONS="print_stacktrace=1",
                JANET_PATH="/nonexistent")

ADDR = re.compile(rb"0x[0-9a-fA-F]+")
SECS = re.compile(rb"in [0-9.]+ seconds")
TMPN = re.compile(rb"tmp_dir_[0-9]+\.tmp|c01-(sock|fw)-[0-9]+")


def canon(b):
    return TMPN.sub(b"TMP", SECS.sub(b"in N seconds", ADDR.sub(b"0xADDR", b)))


def sanitizer_report(err):
    return (b"AddressSanitizer" in err) or (b"runtime error:" in err) or (b"LeakSanitizer" in err)


class Job:
    """one execution of the harness"""

    def __init__(self, prog, variant, sched, seed=1, graph=False, crit=False, dump=0, cwd=None, timeout=300, args=(), stack_kb=0):
        self.stack_kb = stack_kb
        self.prog, self.variant, self.sched, self.seed = prog, variant, sched, seed
        self.graph, self.crit, self.dump, self.cwd, self.timeout, self.args = graph, crit, dump, cwd, timeout, tuple(args)

    def key(self):
        return "%s|%s|%s" % (os.path.basename(self.prog), self.variant, self.sched)


# stratified schedules of the quick tier (harness/C01/gch.c, schedule `uNcK`): a collection at EVERY safepoint reached while a
# function of the program under test runs (the first K of them; afterwards one in 4) and at one in N of the safepoints in
# boot.janet's own code
QS_SCEN, QS_GEN_BEH, QS_GEN_GRAPH = "u8c600", "u16c400", "u32c200"

KEEPALIVE = []       # path of the build directory's .lastuse stamp (vlib/build.py purges build directories of OTHER tree hashes


def keepalive():
    """that were not used for 30 min: a thorough run that outlives a change of /repo HEAD must keep its own directory fresh)"""
    for p in KEEPALIVE:
        try:
            os.utime(p, None)
        except OSError:
            pass


def run_job(exes, job, tmp):
    keepalive()
    rp = tempfile.mktemp(prefix="rep", dir=tmp)
    env = dict(BASE_ENV, C01_SCHED=job.sched, C01_SEED=str(job.seed), C01_REPORT=rp)
    dp = None
    if job.graph:
        env["C01_GRAPH"] = "1"
    if job.crit:
        env["C01_CRIT"] = "1"
    if job.dump:
        dp = tempfile.mktemp(prefix="dump", dir=tmp)
        env.update(C01_DUMP=dp, C01_DUMP_EVERY=str(job.dump[0]), C01_DUMP_OFF=str(job.dump[1]), C01_DUMP_MAX=str(job.dump[2]))
    cmd = [exes[job.variant], job.prog] + list(job.args)
    if job.stack_kb:
        cmd = ["prlimit", "--stack=%d" % (job.stack_kb * 1024)] + cmd
    t0 = time.time()
    rc, out, err = run_cmd(cmd, timeout=job.timeout, cwd=job.cwd, env=env)
    job.secs = time.time() - t0
    rep = ""
    if os.path.exists(rp):
        with open(rp, errors="replace") as f:
            rep = f.read()
        os.unlink(rp)
    return dict(job=job, rc=rc, out=out, err=err, rep=rep, dump=dp if dp and os.path.exists(dp) else None)


def parse_report(rep):
    findings = [l for l in rep.splitlines() if l.startswith("FINDING")]
    summary, labels, crit = {}, {}, {}
    for l in rep.splitlines():
        if l.startswith("STACK "):
            STACKS.add(l)
    for l in rep.splitlines():
        if l.startswith("SUMMARY"):
            for kv in l.split()[1:]:
                k, v = kv.split("=")
                summary[k] = summary.get(k, 0) + int(v)
        elif l.startswith("LABELS"):
            for kv in l.split()[1:]:
                k, v = kv.split("=")
                e, c = v.split("/")
                labels[k] = labels.get(k, 0) + int(e)
        elif l.startswith("CRIT"):
            for kv in l.split()[2:]:
                k, v = kv.split("=")
                crit[k] = max(crit.get(k, 0), int(v))
    return findings, summary, labels, crit


SYM_BITS = 18          # engineered names fix the low 18 bits of the string hash: home bucket known for every cache capacity <= 2^18
SYM_CLASSES = ["3ffff", "0", "3fffe", "1ffff"]   # last bucket (chain wraps to bucket 0), bucket 0, last but one, last bucket at <= 2^17


def symbol_pool(ctx, rng):
    """names whose string hash - computed by the tree's own janet_string_calchash (harness/C01/symnames.c) - has chosen low
    bits, so that generated programs can build colliding probe chains at chosen buckets of the symbol cache"""
    exe = ctx.build.harness("plain", "c01symnames", [os.path.join(H, "symnames.c")])
    classes = SYM_CLASSES + ["%x" % rng.below(1 << SYM_BITS)]
    rc, out, err = run_cmd([exe, str(SYM_BITS), "10", "kw%d-" % rng.below(90), *classes], timeout=600)
    pool = {}
    for l in out.decode(errors="replace").splitlines():
        f = l.split()
        if len(f) >= 3:
            pool[f[0]] = f[1:]
    return pool


def scenario_meta(path):
    need, opt, scheds, observes, stack = [], [], None, False, 0
    with open(path) as f:
        for line in f:
            if not line.startswith("#"):
                break
            m = re.match(r"#\s*edge(\??):\s*(\S+)", line)
            if m:
                (opt if m.group(1) else need).append(m.group(2))
            m = re.match(r"#\s*symcache:\s*(\S+)", line)
            if m:
                need.append("symcache:" + m.group(1))
            m = re.match(r"#\s*worker:\s*(\S+)", line)
            if m:
                need.append("worker:" + m.group(1))
            m = re.match(r"#\s*schedules:\s*(.*)", line)
            if m:
                scheds = m.group(1).split()
            if "observes-gc" in line:
                observes = True
            m = re.match(r"#\s*stack-kb:\s*(\d+)", line)
            if m:
                stack = int(m.group(1))
    return need, opt, scheds, observes, stack



def roots_stage(ctx, quick, driver, gen_info, broken, only=None):
    """(D) op-history correspondence of the root-set protocol / suspension / collection decision against the real
    functions, and (E) the plain-Python reference of the protocol on the implementation alone."""
    exes = {}
    for v in ("plain", "asan"):
        exes[v] = ctx.build.harness(v, "c01roots", ROOT_SOURCES)
    rng = ctx.rng.fork("roots")
    hist = []
    for p in sorted(glob.glob(os.path.join(ROOT_OPS, "*.ops"))):
        with open(p) as f:
            hist.append((os.path.basename(p), [l.strip() for l in f if l.strip() and not l.startswith("#")]))
    n_gen = 0 if only else (160 if quick else 3000)
    if os.environ.get("C01_LIGHT"):
        n_gen = 60
    if broken:
        n_gen *= 4          # something in A-C no longer checks: search harder for a failing history
    for i in range(n_gen):
        r = rng.fork("h%d" % i)
        hist.append(("gen%04d" % i, rootsgen.generate(r, r.range(30, 260))))
    if only:
        hist = [only]

    def one(job):
        idx, (name, ops) = job
        variant = "asan" if idx % 2 else "plain"
        rc, out, err = run_cmd([exes[variant]], input=("\n".join(ops) + "\n").encode(), timeout=300, env=BASE_ENV)
        return name, ops, variant, rc, out.decode(errors="replace"), err
    with cf.ThreadPoolExecutor(int(os.environ.get("VERIF_JOBS", "16"))) as ex:
        impl = list(ex.map(one, enumerate(hist)))
    tot = dict(histories=len(hist), ops=0, states=0, state_diffs=0, contract_findings=0)
    agg = {}
    model_in, spans = [], []
    parsed = []
    for name, ops, variant, rc, out, err in impl:
        replay = dict(kind="root-ops", name=name, ops=ops, variant=variant)
        if rc is None or rc != 0 or sanitizer_report(err):
            ctx.violation("memory:root-ops", dict(replay, rc=rc, stderr=err.decode(errors="replace")[-4000:]),
                          what="crash / sanitizer report / hang replaying a root-protocol op history (%s, %s): %s" % (name, variant, err.decode(errors="replace")[:300].replace("\n", " | ")))
            parsed.append(None)
            continue
        m, st = [], []
        for l in out.splitlines():
            if l.startswith("m "):
                m.append(l)
            elif l.startswith("st "):
                m.append("show")
                st.append(l)
        parsed.append((m, st))
        spans.append((len(model_in), len(m), len(parsed) - 1))
        model_in += m
    model_out = []
    if driver and model_in:
        rc, out, err = run_cmd([driver], input=("\n".join(model_in) + "\n").encode(), timeout=1800)
        model_out = [l for l in out.decode(errors="replace").splitlines() if l.startswith("st ")]
        if rc != 0:
            broken.append("model driver failed on root-protocol histories: %s" % err[-200:])
            ctx.broken.append(broken[-1])
    mi = 0
    samples = []
    for (name, ops, variant, rc, out, err), ps in zip(impl, parsed):
        if ps is None:
            continue
        m, st = ps
        replay = dict(kind="root-ops", name=name, ops=ops, variant=variant)
        mo = model_out[mi:mi + len(st)]
        mi += len(st)
        tot["ops"] += len(ops)
        tot["states"] += len(st)
        # (E) reference on the implementation alone
        viol, contract, stats = rootsgen.reference(m, st, gen_info.get("unrootallRescans"))
        for k, v in stats.items():
            agg[k] = max(agg.get(k, 0), v) if k.startswith("max_") else agg.get(k, 0) + v
        if viol:
            tot["oracle_violations"] = tot.get("oracle_violations", 0) + 1
            if tot["oracle_violations"] <= 6:      # the first few histories are enough as replays
                ctx.violation("roots:" + viol[0].split("|")[0], dict(replay, findings=viol[:10], states=st[:400]),
                              what="root-set protocol oracle (%s, %s): %s" % (name, variant, viol[0].split("|", 1)[1][:300]))
        if contract:
            tot["contract_findings"] += len(contract)
            if gen_info.get("unrootallRescans"):
                # the loop re-examines the refilled slot according to the translator, yet an occurrence was left
                ctx.violation("roots:gcunrootall-leaves-occurrence", dict(replay, findings=contract[:10], states=st[:400]),
                              what="janet_gcunrootall left an id-equal root although its loop shape is the re-examining one (%s): %s" % (name, contract[0]))
            elif len(samples) < 3:
                samples.append("%s: %s" % (name, contract[0]))
        # (D) model vs implementation, state by state (whole roots array, counters, liveness of every created block)
        if driver:
            d = [(i, a, b) for i, (a, b) in enumerate(zip(st, mo)) if a != b]
            if len(mo) != len(st) or d:
                tot["state_diffs"] += max(len(d), 1)
                i, a, b = d[0] if d else (len(mo), "", "(model output short)")
                broken.append("correspondence model/impl on root-protocol history %s at state %d: impl `%s` model `%s`" % (name, i, a[:200], b[:200]))
                ctx.broken.append(broken[-1])
                if not viol:
                    keep = os.path.join(ctx.replay_dir, "rootops-%s.txt" % re.sub(r"\W", "_", name))
                    os.makedirs(ctx.replay_dir, exist_ok=True)
                    with open(keep, "w") as f:
                        f.write("\n".join(ops) + "\n")
    if samples:
        # janet_gcunrootall's pinned loop skips the slot it has just refilled (proved: gcunrootall_pinned_leaves_occurrence;
        # full contract only under Gen.GC.unrootallRescans = true).  An over-retained root keeps a block alive; it neither
        # frees a reachable block nor changes observable behaviour, so it is reported as a finding next to C01, not as a
        # violation of C01.  Proposed fix: patches/fix-C01-gcunrootall-skips-swapped-slot.diff
        ctx.say("FINDING (outside the statement of C01, %d occurrence(s)): janet_gcunrootall leaves id-equal roots behind - %s" % (tot["contract_findings"], samples[0]))
    tot["reference"] = agg
    tot["unrootall_contract_samples"] = samples
    return tot


CPU0 = [0.0]
STACKS = set()      # distinct C call stacks seen at collections (raw report lines of the plain graph runs)


def stacks_stage(ctx, exe, gen_info, broken):
    """Dynamic tie of the call-graph certificate: resolve the recorded return addresses with the executable's symbol table; a
    function of the library that was on the C stack while janet_collect ran must be in the regenerated may-collect set."""
    rw = gen_info.get("rootwin")
    if not rw or not STACKS:
        return {}
    rc, out, err = run_cmd(["nm", "-n", "--defined-only", exe], timeout=300)
    syms = []
    for l in out.decode(errors="replace").splitlines():
        f = l.split()
        if len(f) == 3 and f[1] in "tTwW":
            syms.append((int(f[0], 16), f[2].split(".")[0]))
    syms.sort()
    addr_of = {n: a for a, n in syms}
    if "janet_collect" not in addr_of:
        broken.append("symbol table of the harness has no janet_collect: C stacks at collections cannot be resolved")
        ctx.broken.append(broken[-1])
        return {}
    import bisect
    keys = [a for a, _ in syms]
    may = set(rw["may_collect_names"])
    lib = set(rw.get("function_names", ()))
    seen_fns, bad, nframes = {}, {}, 0
    for l in STACKS:
        f = l.split()
        slide = int(f[1].split("=")[1], 16) - addr_of["janet_collect"]
        for a in f[2:]:
            x = int(a, 16) - slide - 1
            if x < keys[0] or x > keys[-1] + 65536:
                continue          # libc / loader frame
            name = syms[bisect.bisect_right(keys, x) - 1][1]
            nframes += 1
            seen_fns[name] = seen_fns.get(name, 0) + 1
            if name in lib and name not in may:
                bad.setdefault(name, l)
    for name, l in sorted(bad.items()):
        broken.append("call-graph certificate contradicted by a run: %s was on the C stack during a collection, but the regenerated "
                      "call graph says it cannot reach janet_collect (missed call edge)" % name)
        ctx.broken.append(broken[-1])
    on_stack_may = sorted(n for n in seen_fns if n in may)
    return {"distinct_stacks": len(STACKS), "frames_resolved": nframes, "library_functions_seen_on_a_collecting_stack": len([n for n in seen_fns if n in lib]),
            "of_the_may_collect_set_seen": "%d of %d" % (len(on_stack_may), len(may)), "seen": on_stack_may,
            "contradictions": sorted(bad)}


def run(ctx, only_replay=None):
    quick = ctx.tier == "quick"
    STACKS.clear()
    ru = resource.getrusage(resource.RUSAGE_CHILDREN)
    CPU0[0] = ru.ru_utime + ru.ru_stime
    broken = []
    try:
        ctx.build.boot()
    except BuildError as e:
        ctx.violation("build-failed", {"kind": "build", "error": str(e)}, found=False, what="tree does not build")
        return ctx.finish("proof", {"evaluations": 0, "distinct_nontrivial": 0})
    # ---------------------------------------------------------------- (A) translator
    gen_info = {}
    try:
        from tools.gen import gc as gen_gc
        text, gen_info = gen_gc.render(ctx.build.tree)
        ctx.gen("GC.lean", text)
    except ExtractError as e:
        broken.append("translator tools/gen/gc.py: %s" % e)
        ctx.broken.append(broken[-1])
    except ImportError:
        pass
    # the whole-program call graph (LLVM IR of the amalgamation) and the windows in which C locals hold unfinished objects
    try:
        from tools.gen import gcroot as gen_gcroot
        text, rw_info = gen_gcroot.render(ctx.build)
        ctx.gen("GCRoot.lean", text)
        gen_info["rootwin"] = rw_info
        ctx.say("call graph: %d functions, %d edges, %d can reach janet_collect, %d of them outside gclock regions; builder windows: %d calls in %d functions; family closure %d; uncertified pairs in %d collecting functions" % (
            rw_info["functions"], rw_info["call_edges"], rw_info["may_collect_any_path"], rw_info["may_collect"], rw_info["begin_end_rows"], rw_info["begin_end_functions"],
            rw_info["family_closure"], len(rw_info["uncertified_window_pairs"])))
    except ExtractError as e:
        broken.append("translator tools/gen/gcroot.py: %s" % e)
        ctx.broken.append(broken[-1])
    # ---------------------------------------------------------------- (B,C) proofs
    if os.path.exists(os.path.join(VERIF, "lean/JanetModel/GC/Model.lean")):
        broken += ctx.obligations("JanetModel.Props.C01", THEOREMS)
        if not quick:
            ok, log = ctx.leanchecker("JanetModel.Props.C01")
            if not ok:
                broken.append("leanchecker JanetModel.Props.C01: " + log[-300:])
        driver = ctx.driver()
    else:
        driver = None
    # ---------------------------------------------------------------- harness builds
    exes = {}
    for v in ("plain", "asan", "asan_debugstack"):
        try:
            exes[v] = ctx.build.harness(v, "c01gch", SOURCES, extra_cflags=["-I" + os.path.join(ctx.build.tree, "src/mainclient")])
        except BuildError as e:
            ctx.violation("build-failed:" + v, {"kind": "build", "variant": v, "error": str(e)[-3000:]}, found=False,
                          what="harness / tree does not build (%s)" % v)
            return ctx.finish("proof", {"evaluations": 0, "distinct_nontrivial": 0})
    tmp = tempfile.mkdtemp(prefix="c01-", dir="/var/tmp")
    KEEPALIVE[:] = [os.path.join(ctx.build.dir, ".lastuse")]
    try:
        return _run(ctx, quick, broken, exes, driver, tmp, gen_info, only_replay)
    finally:
        shutil.rmtree(tmp, ignore_errors=True)


def _run(ctx, quick, broken, exes, driver, tmp, gen_info, only_replay):
    rng = ctx.rng
    roots_tot = {}
    if not only_replay:
        try:
            roots_tot = roots_stage(ctx, quick, driver, gen_info, broken)
            ctx.say("root-protocol histories: %s" % {k: v for k, v in roots_tot.items() if k not in ("reference", "unrootall_contract_samples")})
        except BuildError as e:
            broken.append("root-protocol harness does not build: %s" % str(e)[-400:])
            ctx.broken.append(broken[-1])
    jobs = []          # (group, Job)
    groups = {}        # group name -> dict(prog, kind, meta)
    # ---- catalogue + minimised past failures
    scen = sorted(glob.glob(os.path.join(EDGES, "*.janet"))) + sorted(glob.glob(os.path.join(VERIF, "corpus/C01/regress/*.janet")))
    for p in scen:
        need, opt, scheds, observes, stack = scenario_meta(p)
        g = "scenario:" + os.path.basename(p)
        groups[g] = dict(prog=p, kind="scenario", need=need, opt=opt, observes=observes)
        beh = scheds or ["never", "always", "p16"]
        # quick tier: the every-safepoint schedule is replaced by the stratified one (QS_SCEN: every safepoint in the scenario's
        # own code up to the cap, then one in 4; one in 8 of the safepoints inside boot.janet's compiler / macro expander,
        # which are the same for every program); the thorough tier keeps `always`
        qbeh = [(QS_SCEN if (quick and s == "always") else s) for s in beh]
        weaky = "weak" in os.path.basename(p)      # every collection of a weak-container scenario goes through the model's weak pass
        ringy = "wrapped" in os.path.basename(p)    # ... and every ring state of the wrapped-channel scenario through the regenerated loops
        symy = "symcache" in os.path.basename(p)   # ... and every collection of a symbol-cache scenario through the model's cache pass
        jobs.append((g, Job(p, "plain", "never", graph=True, crit=True, dump=(1, 0, 12 if (weaky or ringy) else (8 if symy else 1)), stack_kb=stack)))
        for s in qbeh[1:]:
            jobs.append((g, Job(p, "plain", s, seed=rng.next() % 10**9, graph=True,
                                dump=(rng.range(2, 6), rng.below(6), 12) if weaky else ((rng.range(2, 9), rng.below(9), 3) if symy else (rng.range(2, 40), rng.below(40), 1)),
                                stack_kb=stack)))
        if not observes:
            for v in ("asan", "asan_debugstack"):
                for s in qbeh:
                    if quick and v == "asan" and s == QS_SCEN:
                        continue   # every-safepoint runs: plain (graph level) and asan_debugstack
                    jobs.append((g, Job(p, v, s, seed=rng.next() % 10**9, stack_kb=stack * 3)))
    # ---- generated programs
    n_small, n_large = (30, 18) if quick else (600, 400)
    light = bool(os.environ.get("C01_LIGHT"))   # development aid (mutation runs): catalogue + a few programs only
    if light:
        n_small, n_large = 12, 8
    if only_replay:
        n_small = n_large = 0
    kinds = {}
    sympool = {}
    if n_small + n_large:
        try:
            sympool = symbol_pool(ctx, rng.fork("sympool"))
        except BuildError as e:
            broken.append("symbol-name helper does not build: %s" % str(e)[-300:])
            ctx.broken.append(broken[-1])
    for i in range(n_small + n_large):
        small = i < n_small
        r = rng.fork("prog%d" % i)
        src, k = pgen.generate(r, nstmts=r.range(6, 12) if small else r.range(25, 45), light=small, sympool=sympool)
        for kk, vv in k.items():
            kinds[kk] = kinds.get(kk, 0) + vv
        p = os.path.join(tmp, "gen%04d.janet" % i)
        with open(p, "w") as f:
            f.write(src)
        g = "gen:%04d" % i
        groups[g] = dict(prog=p, kind="gen", src=src, observes=False, need=[], opt=[])
        if small and quick:
            # CPU budget of the quick tier (measured by the harness, see cpu_seconds in the evidence): about three quarters of a
            # small program's ~8000 safepoints lie in boot.janet's compiler; the stratified schedules collect at every safepoint
            # of the program's own code up to a cap and sample the rest
            plan = [("asan", "never"), ("asan_debugstack", QS_GEN_BEH)] + ([("asan", "p4")] if i % 3 == 0 else [])
            gs = QS_GEN_GRAPH
        elif small:
            # every-safepoint runs: asan_debugstack (ASan + stack relocation at every frame push) and plain asan
            plan = [("asan", "never"), ("asan", "always"), ("asan_debugstack", "always"), ("asan_debugstack", "p4"), ("asan_debugstack", QS_GEN_BEH)]
            gs = "p2"
        else:
            plan = [("asan", "never"), ("asan", "p16"), ("asan_debugstack", "p16")] + ([] if quick else [("asan_debugstack", "p256")])
            gs = "p64"
        for v, s in plan:
            jobs.append((g, Job(p, v, s, seed=r.next() % 10**9)))
        jobs.append((g, Job(p, "plain", gs, seed=r.next() % 10**9, graph=True, dump=(r.range(3, 30), r.below(30), 1) if i % 4 == 0 else 0)))
    # ---- the repo's own test suite
    suites = sorted(glob.glob(os.path.join(ctx.build.tree, "test/suite-*.janet")))
    if quick:
        suites = [s for s in suites if os.path.basename(s) in ("suite-array.janet", "suite-struct.janet", "suite-tuple.janet", "suite-table.janet",
                                                              "suite-symcache.janet", "suite-value.janet", "suite-buffer.janet")]
    if only_replay or light:
        suites = []
    for p in suites:
        g = "suite:" + os.path.basename(p)
        # a test script that uses weak containers observes the collector: memory safety and graph level only
        with open(p, errors="replace") as f:
            weak = "weak" in f.read()
        groups[g] = dict(prog=p, kind="suite", observes=weak, need=[], opt=[])
        big = os.path.basename(p) in ("suite-boot.janet", "suite-corelib.janet", "suite-ev.janet", "suite-peg.janet", "suite-marsh.janet", "suite-os.janet", "suite-bundle.janet")
        plan = [("asan", "never"), ("asan", "p1024" if big else "p64"), ("asan_debugstack", "p1024" if big else "p64")]
        for v, s in plan:
            jobs.append((g, Job(p, v, s, seed=rng.next() % 10**9, cwd=ctx.build.tree, timeout=1800)))
        jobs.append((g, Job(p, "plain", "p4096" if big else "p256", seed=rng.next() % 10**9, graph=True, cwd=ctx.build.tree, timeout=1800)))
    ctx.say("%d executions planned (%d scenarios, %d generated programs, %d suites)" % (len(jobs), len(scen), n_small + n_large, len(suites)))
    # ---------------------------------------------------------------- run
    # Phase 1: the runs without forced collections (the reference of every program).  Phase 2: the scheduled runs, long jobs first,
    # each with a time budget RELATIVE to what its own reference run took under the present load (40 x, at least 60 s, at most the
    # job's fixed budget): on a tree where a collection makes programs hang (a lost wake-up), a fixed 300 s budget per execution
    # used to cost more than an hour.  A run that exceeds its budget is still repeated alone with 3 x that budget (at least 180 s)
    # before it counts (see the evaluation below): 120 x the program's own reference time - no wall-clock assertion.
    results = {}
    first = [i for i in range(len(jobs)) if jobs[i][1].sched == "never"]
    rest = [i for i in range(len(jobs)) if jobs[i][1].sched != "never"]
    rest.sort(key=lambda i: (0 if (jobs[i][1].sched == "always" or jobs[i][1].sched.startswith("u")) else 1, i))
    for i in first:
        if not jobs[i][0].startswith("suite:"):
            jobs[i][1].timeout = min(jobs[i][1].timeout, 120)     # reference runs of scenarios / generated programs take < 1 s of CPU
    with cf.ThreadPoolExecutor(int(os.environ.get("VERIF_JOBS", "16"))) as ex:
        futs = {ex.submit(run_job, exes, jobs[i][1], tmp): i for i in first}
        for f in cf.as_completed(futs):
            results[futs[f]] = f.result()
        ref_secs = {}
        for i in first:
            if results[i]["rc"] is not None:
                ref_secs[jobs[i][0]] = max(ref_secs.get(jobs[i][0], 0.0), getattr(jobs[i][1], "secs", 0.0))
        ref_hung = set(jobs[i][0] for i in first if results[i]["rc"] is None and not jobs[i][0].startswith("suite:"))
        for i in rest:
            g, j = jobs[i]
            j.fixed_timeout = j.timeout
            if g in ref_hung and g not in ref_secs:
                j.timeout = min(j.timeout, 120)      # even the reference run did not finish: same budget as it had
            elif g in ref_secs:
                j.timeout = int(min(j.timeout, max(60 if not g.startswith("suite:") else 180, 40 * ref_secs[g])))
        futs = {ex.submit(run_job, exes, jobs[i][1], tmp): i for i in rest}
        for f in cf.as_completed(futs):
            results[futs[f]] = f.result()
    slow = sorted(((getattr(j, "secs", 0), j.key()) for _, j in jobs), reverse=True)[:8]
    ctx.say("executions done; slowest: " + ", ".join("%s %.0fs" % (k, t) for t, k in slow))
    by = {}
    for g, j in jobs:
        k = "%s/%s/%s%s" % (g.split(":")[0], j.variant, re.sub(r"\d+", "N", j.sched), "+graph" if j.graph else "")
        by[k] = by.get(k, 0) + getattr(j, "secs", 0)
    ctx.say("job seconds by class: " + ", ".join("%s %.0f" % kv for kv in sorted(by.items(), key=lambda kv: -kv[1])[:12]))
    # ---------------------------------------------------------------- evaluate
    tot = dict(pending_streams=0, collections=0, checked=0, nodes=0, edges=0, freed=0, forced=0, safepoints=0, user_safepoints=0, dumps=0, opaque_collections=0,
               sym_probes=0, sym_wrapped=0, sym_through_tomb=0, sym_freed=0, sym_last_freed=0, sym_last_freed_chain=0, sym_skipped=0,
               worker_threads=0, worker_safepoints=0, worker_forced=0, worker_collections=0, worker_checked=0)
    label_edges, crit_seen = {}, {}
    n_exec = 0
    nviol_before = ctx.nviol
    dumps = []
    per_group = {}
    for i, (g, job) in enumerate(jobs):
        per_group.setdefault(g, []).append(results[i])
    sched_hist = {}
    flaky = []
    hang_confirmed = []
    for g, rs in per_group.items():
        info = groups[g]
        ref = None
        for r in rs:
            job = r["job"]
            n_exec += 1
            sched_hist[job.variant + "/" + re.sub(r"\d+", "N", job.sched)] = sched_hist.get(job.variant + "/" + re.sub(r"\d+", "N", job.sched), 0) + 1
            findings, summary, labels, crit = parse_report(r["rep"])
            job.cpu = summary.get("cpu_ms", 0) / 1000.0
            for k in tot:
                tot[k] += summary.get(k, 0)
            for k, v in labels.items():
                label_edges[k] = label_edges.get(k, 0) + v
            if job.crit:
                info["crit"] = crit
                # symbol-cache situations met by this scenario (non-vacuity of `# symcache:` scenarios)
                crit["symcache:last-bucket-chain"] = summary.get("sym_last_freed_chain", 0)
                crit["symcache:tombstone-chain"] = summary.get("sym_through_tomb", 0)
                crit["worker:collections"] = summary.get("worker_checked", 0)
                for k, v in crit.items():
                    crit_seen[k] = max(crit_seen.get(k, 0), v)
            if r["dump"]:
                dumps.append((g, job, r["dump"]))
            replay = dict(kind="gc-run", program=os.path.basename(info["prog"]), source=open(info["prog"]).read() if info["kind"] != "suite" else None,
                          path=info["prog"] if info["kind"] != "gen" else None, variant=job.variant, schedule=job.sched, schedule_seed=job.seed)
            if r["rc"] is None and hang_confirmed:
                pass    # a hang has already been confirmed by a repeated run in this check run: report further timeouts directly
            elif r["rc"] is None:
                # not a wall-clock assertion: a run that hits the timeout while the machine is overloaded is repeated once,
                # alone, with three times the budget; only a second timeout is reported.  (Once one repetition has timed out
                # too, the tree does hang - e.g. a fiber whose wake-up was lost - and the other timeouts are not repeated:
                # on such a tree every repetition would cost 30 min.)
                again = run_job(exes, Job(job.prog, job.variant, job.sched, seed=job.seed, graph=job.graph, crit=job.crit, cwd=job.cwd,
                                          timeout=min(max(job.timeout * 3, 180), getattr(job, "fixed_timeout", job.timeout) * 3), args=job.args, stack_kb=job.stack_kb), tmp)
                if again["rc"] is not None:
                    r = again
                    findings, summary, labels, crit = parse_report(r["rep"])
                else:
                    hang_confirmed.append(job.key())
            if findings:
                sig = "graph:" + findings[0].split()[1] + ":" + os.path.basename(info["prog"]) if info["kind"] != "gen" else "graph:" + findings[0].split()[1]
                ctx.violation(sig, dict(replay, findings=findings[:20]),
                              what="heap graph oracle: %s (%s, %s, schedule %s)" % (findings[0][:300], os.path.basename(info["prog"]), job.variant, job.sched))
            if r["rc"] is None:
                ctx.violation("hang:" + g.split(":")[0], dict(replay, timeout=job.timeout), what="execution did not finish within %d s (%s %s %s)" % (job.timeout, g, job.variant, job.sched))
                continue
            if r["rc"] < 0 or sanitizer_report(r["err"]):
                ctx.violation("memory:" + (g if info["kind"] != "gen" else "gen"), dict(replay, rc=r["rc"], stderr=r["err"].decode(errors="replace")[-6000:]),
                              what="crash / sanitizer report under schedule %s (%s, %s): %s" % (job.sched, g, job.variant, r["err"].decode(errors="replace")[:300].replace("\n", " | ")))
                continue
            if info.get("observes"):
                continue
            obs = (r["rc"], canon(r["out"]), canon(r["err"]))
            if ref is None:
                ref = (job, obs)
            elif obs != ref[1]:
                what = "stdout" if obs[1] != ref[1][1] else ("stderr" if obs[2] != ref[1][2] else "exit status")
                # exclude flakiness: both runs are repeated once; only a repeated difference counts
                again = run_job(exes, job, tmp)
                again_ref = run_job(exes, ref[0], tmp)
                if again["rc"] is not None and again_ref["rc"] is not None and \
                        (again["rc"], canon(again["out"]), canon(again["err"])) == (again_ref["rc"], canon(again_ref["out"]), canon(again_ref["err"])):
                    flaky.append("%s %s/%s" % (g, job.variant, job.sched))
                    continue
                ctx.violation("behaviour:" + (g if info["kind"] != "gen" else "gen"), dict(replay, reference=dict(variant=ref[0].variant, schedule=ref[0].sched, rc=ref[1][0], stdout=ref[1][1].decode(errors="replace")[-4000:], stderr=ref[1][2].decode(errors="replace")[-2000:]),
                                                                  observed=dict(rc=obs[0], stdout=obs[1].decode(errors="replace")[-4000:], stderr=obs[2].decode(errors="replace")[-2000:])),
                              what="%s differs between schedule %s/%s and %s/%s for %s" % (what, ref[0].variant, ref[0].sched, job.variant, job.sched, g))
        # catalogue non-vacuity: the scenario really makes something reachable only through its edge kind
        if info["kind"] == "scenario" and info["need"]:
            for lab in info["need"]:
                if info.get("crit", {}).get(lab, 0) <= 0:
                    broken.append("catalogue scenario %s no longer exercises edge kind %s exclusively" % (os.path.basename(info["prog"]), lab))
                    ctx.broken.append(broken[-1])
    # ---------------------------------------------------------------- model correspondence on the dumps
    model_checked = model_diffs = 0
    model_stats = {}
    if driver and dumps:
        def one(d):
            with open(d[2], "rb") as f:
                data = f.read()
            rc, out, err = run_cmd([driver], input=data, timeout=900)
            return d, rc, out.decode(errors="replace"), err.decode(errors="replace")
        with cf.ThreadPoolExecutor(16) as ex:
            for d, rc, out, err in ex.map(one, dumps):
                g, job, path = d
                lines = [l for l in out.splitlines() if l.startswith("result")]
                if rc != 0 or not lines:
                    broken.append("model driver failed on dump of %s: %s" % (g, err[-200:]))
                    ctx.broken.append(broken[-1])
                    continue
                for l in lines:
                    model_checked += 1
                    kv = dict(x.split("=") for x in l.split()[1:])
                    for k, v in kv.items():
                        if v.isdigit():
                            model_stats[k] = model_stats.get(k, 0) + int(v)
                    if kv.get("ok") != "1":
                        model_diffs += 1
                        keep = os.path.join(ctx.replay_dir, "dump-%s.txt" % re.sub(r"\W", "_", g))
                        shutil.copy(path, keep)
                        broken.append("correspondence model/impl on heap dump of %s (%s %s): %s" % (g, job.variant, job.sched, l[:300]))
                        ctx.broken.append(broken[-1])
    # CPU cost (measured by the harness itself with getrusage, so independent of the load of the box)
    cpu_by = {}
    for g, j in jobs:
        k = "%s/%s/%s%s" % (g.split(":")[0], j.variant, re.sub(r"\d+", "N", j.sched), "+graph" if j.graph else "")
        cpu_by[k] = cpu_by.get(k, 0) + getattr(j, "cpu", 0)
    cpu_exec = sum(cpu_by.values())
    ru = resource.getrusage(resource.RUSAGE_CHILDREN)
    cpu_all = ru.ru_utime + ru.ru_stime - CPU0[0]
    ctx.say("CPU seconds: executions %.0f (%s); all child processes of this check incl. lake, drivers, compilers %.0f" % (
        cpu_exec, ", ".join("%s %.0f" % kv for kv in sorted(cpu_by.items(), key=lambda kv: -kv[1])[:10]), cpu_all))
    if os.environ.get("C01_PROFILE"):
        for c, k in sorted(((getattr(j, "cpu", 0), j.key()) for _, j in jobs), reverse=True)[:60]:
            ctx.say("  cpu %6.1fs %s" % (c, k))
    stack_tie = stacks_stage(ctx, exes["plain"], gen_info, broken)
    if stack_tie:
        ctx.say("C stacks at collections: %d distinct, %s may-collect functions seen, contradictions: %s" % (
            stack_tie["distinct_stacks"], stack_tie["of_the_may_collect_set_seen"], stack_tie["contradictions"] or "none"))
    new_viol = ctx.nviol - nviol_before
    if broken and not new_viol:
        ctx.violation("broken:" + broken[0][:80], {"kind": "broken-obligation", "broken": broken[:20]}, found=False,
                      what="no longer shown to hold: " + "; ".join(broken)[:800])
    cov = {
        "evaluations": n_exec,
        "distinct_nontrivial": len(groups),
        "rule": "one evaluation = one run of the embedding harness (program x variant x GC schedule); non-trivial = distinct program "
                "(catalogue scenario, generated program or repo test suite); every collection of a graph run is one exact "
                "marked==reachable + freed==unmarked comparison (collections_checked)",
        "samples": [j.key() for _, j in jobs[:3]] + [j.key() for _, j in jobs[-3:]],
        "collections_total": tot["collections"], "collections_graph_checked": tot["checked"], "graph_nodes_visited": tot["nodes"],
        "graph_edges_visited": tot["edges"], "blocks_freed_checked": tot["freed"], "safepoints": tot["safepoints"], "safepoints_in_program_code_under_stratified_schedules": tot["user_safepoints"], "forced_collections": tot["forced"],
        "pending_stream_root_checks": tot["pending_streams"],
        "worker_thread_collections": {"threads": tot["worker_threads"], "safepoints": tot["worker_safepoints"], "forced": tot["worker_forced"],
                                      "collections": tot["worker_collections"], "graph_checked": tot["worker_checked"]},
        "symbol_cache_checks": {"collections_verified_after_a_symbol_was_freed_or_the_cache_changed": tot["checked"] + tot["worker_checked"] - tot["sym_skipped"],"probes_of_surviving_symbols": tot["sym_probes"], "probe_wrapped_past_last_bucket": tot["sym_wrapped"],
                                "probe_stepped_over_tombstone": tot["sym_through_tomb"], "symbols_freed": tot["sym_freed"],
                                "collections_freeing_the_last_bucket": tot["sym_last_freed"],
                                "of_which_with_a_live_chain_through_it": tot["sym_last_freed_chain"],
                                "engineered_name_classes": {k: len(v) for k, v in sorted(sympool.items())}},
        "collections_with_unknown_abstract_gcmark": tot["opaque_collections"],
        "edge_labels_seen": dict(sorted(label_edges.items())), "edge_labels_exclusive_max": dict(sorted(crit_seen.items())),
        "cpu_seconds": {"executions": round(cpu_exec, 1), "all_children": round(cpu_all, 1), "by_class": {k: round(v, 1) for k, v in sorted(cpu_by.items())}},
        "c_stacks_at_collections_vs_call_graph": stack_tie,
        "schedule_variant_histogram": sched_hist, "generated_statement_kinds": dict(sorted(kinds.items())),
        "differences_not_reproduced_on_rerun": flaky,
        "model_dumps_checked": model_checked, "model_dump_diffs": model_diffs, "model_stats": model_stats,
        "root_protocol_histories": roots_tot,
        "scenarios": len(scen), "generated_programs": n_small + n_large, "suites": len(suites),
        "translator": {k: ({kk: vv for kk, vv in v.items() if kk != "function_names"} if k == "rootwin" else v) for k, v in gen_info.items()},
    }
    return ctx.finish("proof", cov, assumptions=[
        "rooting discipline of C code: PROVED for every function that cannot reach janet_collect in the regenerated whole-program call graph other than through a call site inside a janet_gclock region (1445 of 1501 functions on the pinned tree, incl. every _begin .. _end builder window, marshal / unmarshal, PEG compilation, the parser, the compiler); for the functions that can be interrupted by an unsuspended collection (run_vm, peg_rule, janet_continue, janet_pcall, the event loop, ...) it is TESTED by the schedule comparison under ASan, not proved - their allocation -> collection site pairs are listed in translator.rootwin.uncertified_window_pairs",
        "janet_gclock regions: the must-analysis is intra-procedural (a callee inside the region is assumed not to lower gc_suspend below the region's level: janet_gcunlock restores the callee's own handle, Gen/GC.lean lists every write of gc_suspend); validated on every graph run - a library function on the C stack of a real collection must be in the unlocked may-collect set",
        "the call graph over-approximates indirect calls by LLVM function type over address-taken functions (no calls through pointers cast to another function type) and treats functions outside the library (libc) as unable to call back except through a function address the caller mentions",
        "the Lean model abstracts a block to (kind, ordered edge list with value/pointer/weak class); the harness's independent enumerator is the tie",
        "collections happen only at interpreter safepoints / explicit janet_collect calls; the forced-schedule hook covers maybe_collect in vm.c",
        "worker threads (ev/thread) get the same forced schedule (own PRNG stream per thread, numbered in start order) and the same graph oracle, serialised by a mutex; no model dumps are taken there",
    ])


def replay(ctx, path):
    r = json.load(open(path))
    print(json.dumps({k: v for k, v in r.items() if k not in ("source",)}, indent=1)[:3000])
    if r.get("kind") == "root-ops" and r.get("ops"):
        from tools.gen import gc as gen_gc
        _, gen_info = gen_gc.render(ctx.build.tree)
        before = ctx.nviol
        broken = []
        tot = roots_stage(ctx, True, ctx.driver(), gen_info, broken, only=(r.get("name", "replay"), r["ops"]))
        print(json.dumps({k: v for k, v in tot.items()}, indent=1)[:2000])
        for b in broken:
            print("BROKEN", b)
        if ctx.nviol > before or broken:
            print("VIOLATION property=C01 replay=%s" % path)
            return 1
        print("replay: root-protocol history agrees with the reference and the model")
        return 0
    if r.get("kind") != "gc-run" or not (r.get("source") or r.get("path")):
        return run(ctx)
    exes = {}
    for v in ("plain", "asan", "asan_debugstack"):
        exes[v] = ctx.build.harness(v, "c01gch", SOURCES, extra_cflags=["-I" + os.path.join(ctx.build.tree, "src/mainclient")])
    tmp = tempfile.mkdtemp(prefix="c01r-", dir="/var/tmp")
    try:
        p = r.get("path")
        cwd = None
        if r.get("source"):
            p = os.path.join(tmp, r["program"])
            with open(p, "w") as f:
                f.write(r["source"])
        elif "/test/suite-" in p:
            p = os.path.join(ctx.build.tree, "test", os.path.basename(p))
            cwd = ctx.build.tree
        outs = []
        for sched in ("never", r["schedule"]):
            stack = scenario_meta(p)[4] if os.path.exists(p) else 0
            res = run_job(exes, Job(p, r["variant"], sched, seed=r.get("schedule_seed", 1), graph=(r["variant"] == "plain"), cwd=cwd,
                                    stack_kb=stack * (1 if r["variant"] == "plain" else 3)), tmp)
            findings = parse_report(res["rep"])[0]
            print("---- schedule %s: rc=%s findings=%d" % (sched, res["rc"], len(findings)))
            print(res["out"].decode(errors="replace")[-1500:])
            print(res["err"].decode(errors="replace")[-3000:])
            for f in findings[:10]:
                print(f)
            outs.append((res["rc"], canon(res["out"]), canon(res["err"]), bool(findings), sanitizer_report(res["err"])))
        bad = outs[0][:3] != outs[1][:3] or outs[1][3] or outs[1][4] or (outs[1][0] is None) or (outs[1][0] is not None and outs[1][0] < 0)
        if bad:
            print("VIOLATION property=C01 replay=%s" % path)
            return 1
        print("replay: behaviour identical, no findings")
        return 0
    finally:
        shutil.rmtree(tmp, ignore_errors=True)
