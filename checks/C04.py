"""C04 - tables, structs, arrays and buffers behave as maps and sequences.

Pipeline:  (A) regenerate Gen/Table.lean from table.c / util.c / util.h / struct.c / janet.h
           (B,C) kernel re-checks Props/C04 (invariant + refinement theorems over arbitrary op lists) + axiom audit
           (D) correspondence: random / targeted operation histories run on the real implementation (in-process ASan
               harness harness/C04/hist.c, wrapper TU around table.c) and on the compiled Lean model; after EVERY op the
               result and the raw state of every register (slot array digest / count / deleted / capacity / proto;
               count / capacity / contents of sequences) are compared
           (E) direct oracle, independent of the model: a plain python dict / list replay of the same history checked
               against what the implementation answered
Failing histories are minimised (delta debugging) before being written as the replay."""
import json
import os
import concurrent.futures as cf
from vlib.core import run_cmd, VERIF
from vlib.build import BuildError
from tools.gen import table as gen_table
from tools.gen import seq as gen_seq
from tools.gen.csrc import ExtractError

THEOREMS = []  # filled below once Props/C04.lean exists (kept in one place: THEOREM_NAMES)
THEOREM_NAMES = """
inv_init abs_init inv_put abs_put no_null_deref inv_remove abs_remove inv_rehash inv_clear abs_clear inv_clone abs_clone inv_merge abs_merge
step_refines inv_reachable abs_run length_eq_card length_reachable rawget_spec get_spec get_depth_cutoff proto_irrelevant
next_visits_each_key_once rehash_has_room capacity_pow2_init capacity_pow2_step merge_eq_puts proto_step merge_proto_none merge_new_spec fromPuts_proto_none
arr_count_le_capacity buf_count_le_capacity no_overflow abs_new abs_push abs_cfun_push abs_pop abs_setcount abs_insert abs_remove_seq
abs_slice abs_fill abs_concat abs_put_seq abs_putindex abs_trim buf_extra_guard abs_buf_push abs_buf_setcount abs_buf_popn abs_buf_fill
abs_buf_blit abs_buf_blit_self astep_abs arr_inv_reachable aensure_never_exits flatten_terminates
no_oob_in no_oob_get no_oob_halfrange no_oob_slice aremove_no_ub aremove_overflow_ub putindex_fills_gap putindex_gap_uninit
no_oob_push abs_buf_push_u8 abs_buf_push_u32 abs_buf_push_self bpush_self_no_ub bpush_self_overflow_ub abs_buf_push_dispatch
abs_buf_push_byte abs_buf_push_string abs_buf_push_word abs_buf_push_at pushat_error_truncates abs_buf_put abs_buf_putindex abs_buf_trim
abs_buf_clear abs_buf_fill_all abs_buf_new_filled abs_buf_from_bytes abs_buf_slice no_oob_blit_decode no_oob_blit_dest abs_buf_blit_full
no_oob_bitloc abs_buf_bit_set abs_buf_bit_clear abs_buf_bit_toggle abs_buf_bit_get bstep_abs buf_inv_reachable
abs_new_filled abs_peek abs_clear_seq abs_join ajoin_not_indexed_err abs_remove_exact
count_putKey_le pow2_step_bounded capacity_pow2_reachable capacity_pow2_run
struct_inv_of_check struct_rawget_spec struct_get_spec struct_get_depth_cutoff struct_proto_irrelevant struct_next_visits_each_key_once
struct_to_table_spec to_struct_certified thaw_freeze_same_map table_rawget_ignores_proto
struct_put_establishes_inv struct_begin_inv to_struct_spec struct_roundtrip_same_map with_proto_spec
fromPuts_putsOf_spec thaw_flat_spec freeze_level_spec thaw_freeze_level_same_map struct_end_spec struct_literal_spec
struct_put_existing_key struct_put_any_key struct_begin_ordered struct_last_value_wins
""".split()
ENV = dict(os.environ, ASAN_OPTIONS="detect_leaks=0:abort_on_error=0:allocator_may_return_null=1", UBSAN_OPTIONS="print_stacktrace=1")
NT, NS, NA, NB = 4, 2, 3, 3
# memmove/memcpy(NULL, x, 0) on empty arrays (array.c, UB by the letter, harmless) must not abort the harness
HARNESS_CFLAGS = ["-fno-sanitize=nonnull-attribute"]
I32MAX = 2**31 - 1


# ----------------------------------------------------------------------------------------------------------------------
# history generators
class Gen:
    def __init__(self, rng, pool, kinds=None):
        self.r = rng
        self.pool = pool            # list of (idx, hash)
        # keys that `thaw` maps to themselves: numbers, keywords, symbols, booleans (strings thaw to buffers, tuples to arrays)
        self.thawable = set(i for i, k in (kinds or {}).items() if k in (0, 1, 3, 4, 6))
        self.by_home = {}
        for i, h in pool:
            self.by_home.setdefault(h & 1023, []).append(i)
        self.homes = sorted(self.by_home)
        self.stats = {}

    def note(self, op):
        self.stats[op] = self.stats.get(op, 0) + 1

    def working_set(self, size):
        r = self.r
        nh = r.range(1, 3)
        hs = [r.choice(self.homes) for _ in range(nh)]
        cand = []
        for hm in hs:
            cand += self.by_home[hm]
        if r.chance(1, 4):
            cand += [0, 1]
        cand = sorted(set(cand))
        if self.thawable and r.chance(1, 3):
            cand = [c for c in cand if c in self.thawable] or cand
        r.shuffle(cand)
        if size >= len(cand) and r.chance(1, 2):
            extra = [i for i, _ in self.pool]
            r.shuffle(extra)
            cand = (cand + extra)[:size]
        return cand[:max(1, size)]

    def val(self, nil_w=0):
        r = self.r
        x = r.below(100)
        if x < nil_w:
            return "v0"
        if x < nil_w + 8:
            return "v1"      # false: the value the tombstone marker uses
        if x < nil_w + 12:
            return "v2"
        return "v%d" % r.range(3, 99999)

    def table_history(self, nops, wsize):
        r = self.r
        ws = self.working_set(wsize)
        ops = []
        T = lambda: "T%d" % r.below(NT)
        S = lambda: "S%d" % r.below(NS)
        main = T()
        K = lambda: "K%d" % r.choice(ws)
        big = wsize > 64
        # proto graph tracked to avoid `flatten` on cycles (table/proto-flatten does not terminate there)
        proto = {}
        ident = {"T%d" % i: i for i in range(NT)}
        fresh = [NT]

        def newobj(reg):
            ident[reg] = fresh[0]
            fresh[0] += 1

        def cyclic(reg):
            seen, cur = set(), ident[reg]
            while cur is not None:
                if cur in seen:
                    return True
                seen.add(cur)
                cur = proto.get(cur)
            return False
        for _ in range(nops):
            t = main if r.chance(3, 4) else T()
            x = r.below(1000)
            if x < 360:
                ops.append("put %s %s %s" % (t, K(), self.val(18)))
            elif x < 385:
                # boot.janet `merge`: a NEW table; then look at its prototype and at keys that may live only in prototypes
                d = T()
                srcs = [r.choice([T(), T(), S()]) for _ in range(r.range(0, 3))]
                ops.append("mergenew %s %s" % (d, " ".join(srcs)))
                newobj(d)
                ops.append("getproto %s" % d)
                for _ in range(r.range(1, 3)):
                    ops.append("%s %s %s" % (r.choice(["get", "in", "rawget"]), d, K()))
            elif x < 395:
                d = T()
                ks = [K() if r.chance(9, 10) else r.choice(["nil", "nan"]) for _ in range(r.range(0, 8))]
                vs = [self.val(10) for _ in range(r.range(0, 8))]
                ops.append("zipcoll %s %s / %s" % (d, " ".join(ks), " ".join(vs)))
                newobj(d)
                ops.append("getproto %s" % d)
            elif x < 405:
                d = T()
                kv = []
                for _ in range(r.range(0, 8)):
                    kv += [K() if r.chance(9, 10) else r.choice(["nil", "nan"]), self.val(10)]
                ops.append("frompairs %s %s" % (d, " ".join(kv)))
                newobj(d)
                ops.append("getproto %s" % d)
            elif x < 418:
                ops.append("update %s %s" % (t, K()))
            elif x < 430:
                ops.append("getproto %s" % r.choice([t, S()]))
            elif x < 480:
                ops.append("rem %s %s" % (t, K()))
            elif x < 560:
                ops.append("get %s %s" % (t, K()))
            elif x < 600:
                ops.append("in %s %s" % (t, K()))
            elif x < 650:
                ops.append("rawget %s %s" % (t, K()))
            elif x < 700:
                ops.append("next %s %s" % (t, K() if r.chance(4, 5) else "nil"))
            elif x < 720:
                ops.append("len %s" % t)
            elif x < (730 if big else 760):
                ops.append("%s %s" % (r.choice(["keys", "pairs", "values"]), t))
            elif x < 770:
                k = r.choice(["nil", "nan"])
                ops.append(r.choice(["put %s %s %s" % (t, k, self.val(10)), "get %s %s" % (t, k), "rawget %s %s" % (t, k), "in %s %s" % (t, k)]))
            elif x < 780:
                ops.append("clear %s" % t)
            elif x < 810:
                d = T()
                ops.append("clone %s %s" % (t, d))
                src = ident[t]
                newobj(d)
                if src in proto:
                    proto[ident[d]] = proto[src]
            elif x < 850:
                p = T() if r.chance(5, 6) else "nil"
                ops.append("setproto %s %s" % (t, p))
                if p == "nil":
                    proto.pop(ident[t], None)
                else:
                    proto[ident[t]] = ident[p]
            elif x < 865:
                srcs = [r.choice([T(), S()]) for _ in range(r.range(1, 2))]
                ops.append("%s %s %s" % (r.choice(["merge", "cmerge"]), t, " ".join(srcs)))
            elif x < 880:
                ops.append("tostruct %s %s" % (t, S()))
            elif x < 895:
                d = T()
                ops.append("totable %s %s" % (S(), d))
                newobj(d)
            elif x < 899:
                ops.append("tnew %s %d" % (t, r.choice([0, 0, 1, 2, 3, 4, 7, 8, 9, 16, 31, 33, 100, 600])))
                newobj(t)
            elif x < 905:
                y = r.below(10)
                if y < 3:
                    # weak tables share janet_table_init_impl / put / rehash with ordinary ones (keys are rooted, values immediate)
                    cap = r.choice(["0", "1", "3", "8", "33", "-1", "nil"])
                    ops.append("tnewweak %s %s %d" % (t, cap, r.range(1, 3)))
                    if cap not in ("-1", "nil"):
                        newobj(t)       # an invalid capacity raises: the register keeps its table (and its prototype chain)
                elif y < 7:
                    if not cyclic(t):       # freeze recurses along the prototype chain
                        ops.append("freeze %s %s" % (t, S()))
                elif all(k in self.thawable for k in ws) and not big:
                    d = T()
                    ops.append("thaw %s %s" % (t, d))
                    newobj(d)
            elif x < 915:
                if not cyclic(t) or r.chance(1, 3):      # a cyclic chain must be cut off like `get` does, not loop for ever
                    d = T()
                    ops.append("flatten %s %s" % (t, d))
                    newobj(d)
            elif x < 960:
                s = S()
                ops.append(r.choice(["get %s %s", "in %s %s", "rawget %s %s", "next %s %s"]) % (s, K()))
            elif x < 975:
                s = S()
                ops.append("%s %s" % (r.choice(["keys", "pairs", "len", "values"]), s))
            elif x < 990:
                n = r.range(0, 12)
                kv = []
                for _ in range(n):
                    kv += [K() if r.chance(9, 10) else r.choice(["nil", "nan"]), self.val(8)]
                if r.chance(1, 12):
                    kv.append(K())       # odd argument count -> error
                ks = [k for k in kv[0::2] if k.startswith("K")]
                if len(set(ks)) < len(ks):
                    self.note("mkstruct:repeated-key")   # the `status == 0` replace path (struct_last_value_wins)
                ops.append("mkstruct %s %s" % (S(), " ".join(kv)))
            else:
                ops.append("withproto %s %s %s" % (S(), S() if r.chance(3, 4) else "nil", S()))
        for o in ops:
            self.note(o.split()[0])
        return ops

    def dup_literal_history(self, nlit=24):
        """struct literals that REPEAT keys, the keys colliding in one or two home buckets (the `status == 0` replace path
        of janet_struct_put_ext behind swapped / displaced entries), nil values in between, then every reader"""
        r = self.r
        ops = []
        for _ in range(nlit):
            ws = self.working_set(r.choice([2, 3, 4, 6, 9]))
            n = r.range(len(ws) + 1, 3 * len(ws) + 3)
            kv = []
            for _ in range(n):
                kv += ["K%d" % r.choice(ws), self.val(10)]
            s = "S%d" % r.below(NS)
            ops.append("mkstruct %s %s" % (s, " ".join(kv)))
            self.note("mkstruct")
            self.note("mkstruct:repeated-key")
            ops += ["len %s" % s, "pairs %s" % s]
            for k in ws[:4]:
                ops.append(r.choice(["get %s K%d", "in %s K%d", "rawget %s K%d", "next %s K%d"]) % (s, k))
            if r.chance(1, 3):
                ops.append("totable %s T%d" % (s, r.below(NT)))
            if r.chance(1, 3):
                ops.append("withproto %s nil %s" % (s, s))
        for o in ops:
            if not o.startswith("mkstruct"):
                self.note(o.split()[0])
        return ops

    def growth_history(self, n):
        """insert n distinct colliding keys (crossing every capacity up to 2048), delete most, re-insert, iterate"""
        r = self.r
        ks = [i for i, _ in self.pool]
        r.shuffle(ks)
        ks = ks[:n]
        ops = []
        for i, k in enumerate(ks):
            ops.append("put T0 K%d %s" % (k, self.val()))
            if i % 37 == 0:
                ops.append("get T0 K%d" % r.choice(ks[:i + 1]))
            if i % 101 == 0:
                ops.append("keys T0")
        ops.append("clone T0 T1")
        ops.append("pairs T1")
        r.shuffle(ks)
        for i, k in enumerate(ks[: (len(ks) * 9) // 10]):
            ops.append(("rem T0 K%d" % k) if i % 2 else ("put T0 K%d v0" % k))
            if i % 53 == 0:
                ops.append("next T0 K%d" % r.choice(ks))
        ops.append("keys T0")
        ops.append("len T1")
        for k in ks[: len(ks) // 3]:
            ops.append("put T0 K%d %s" % (k, self.val()))
        ops += ["keys T0", "tostruct T0 S0", "keys S0", "totable S0 T2", "pairs T2", "merge T3 T0 T1", "len T3", "clear T0", "keys T0", "put T0 K%d v5" % ks[0], "pairs T0"]
        for o in ops:
            self.note(o.split()[0])
        return ops

    def idx(self, n):
        """an index argument around a sequence of length n: in range, boundary, negative-from-end, far out, ill-typed"""
        r = self.r
        x = r.below(100)
        if x < 45:
            return str(r.range(0, max(0, n)))
        if x < 70:
            return str(r.range(-n - 2, n + 2))
        if x < 78:
            return str(r.choice([n, n + 1, -n - 1, -n - 2, -1, 0]))
        if x < 86:
            return str(r.choice([I32MAX, -I32MAX - 1, I32MAX - 1, 2**31, -2**31 - 1, 2**40, 1000, 5000]))
        if x < 93:
            return r.choice(["nil", "f1.5", "sabc", "f1e100", ":kw", "true"])
        return str(r.range(-5, 300))

    def count_near_max(self, at, n):
        """a count argument at the int32 boundary relative to the start index `at` of a sequence of length about n:
        INT32_MAX - at (the largest count for which at + count still fits), one more, one less, INT32_MAX - n, INT32_MAX"""
        r = self.r
        try:
            a = int(at)
        except ValueError:
            a = 0
        if a < 0:
            a += n
        a = min(max(a, 0), n + 2)
        return str(r.choice([I32MAX - a, I32MAX - a + 1, I32MAX - a - 1, I32MAX - n, I32MAX - n + 1, I32MAX, I32MAX - 1]))

    def array_history(self, nops):
        r = self.r
        ops = []
        lens = [0] * NA    # rough lengths, only to aim indexes
        A = lambda: r.below(NA)
        for _ in range(nops):
            a = A()
            n = lens[a]
            x = r.below(1000)
            if x < 200:
                k = r.range(0, 6)
                ops.append("apush A%d %s" % (a, " ".join(self.val(10) for _ in range(k))))
                lens[a] += k
            elif x < 260:
                ops.append("apop A%d" % a)
                lens[a] = max(0, n - 1)
            elif x < 280:
                ops.append("apeek A%d" % a)
            elif x < 400:
                k = r.range(0, 4)
                ops.append("ainsert A%d %s %s" % (a, self.idx(n), " ".join(self.val(10) for _ in range(k))))
                lens[a] += k
            elif x < 500:
                if r.chance(1, 2):
                    ops.append("aremove A%d %s" % (a, self.idx(n)))
                else:
                    at = self.idx(n)
                    ops.append("aremove A%d %s %s" % (a, at, r.choice([str(r.range(0, n + 2)), self.idx(n), "0", "1", str(I32MAX - r.below(3)), self.count_near_max(at, n)])))
                lens[a] = max(0, n - 1)
            elif x < 580:
                d = A()
                src = "A%d" % a if r.chance(4, 5) else "[%s]" % ",".join(str(r.range(0, 50)) for _ in range(r.range(0, 6)))
                args = [self.idx(n) for _ in range(r.range(0, 2))]
                ops.append("aslice %s A%d %s" % (src, d, " ".join(args)))
            elif x < 640:
                parts = []
                for _ in range(r.range(0, 3)):
                    y = r.below(4)
                    parts.append("A%d" % A() if y == 0 else ("[%s]" % ",".join(str(r.range(0, 50)) for _ in range(r.range(0, 5))) if y == 1 else self.val(10)))
                if r.chance(1, 3):
                    if r.chance(4, 5):
                        parts = [q for q in parts if q[0] in "A["]      # array/join accepts indexed parts only
                    ops.append("ajoin A%d %s" % (a, " ".join(parts)))
                else:
                    ops.append("aconcat A%d %s" % (a, " ".join(parts)))
            elif x < 670:
                ops.append("afill A%d %s" % (a, self.val(20)) if r.chance(3, 4) else "afill A%d" % a)
            elif x < 700:
                ops.append("aensure A%d %s %s" % (a, r.choice([str(r.range(-2, 80)), str(r.range(-2, n + 5)), "nil", "f1.5", "2147483648"]), r.choice(["1", "2", "3", "nil", "f0.5", str(r.range(1, 4)), "2", "1", "0", "-1"])))
            elif x < 720:
                ops.append("atrim A%d" % a)
            elif x < 730:
                ops.append("aclear A%d" % a)
                lens[a] = 0
            elif x < 800:
                i = self.idx(n) if r.chance(5, 6) else str(r.range(n, n + 40))
                ops.append("put A%d %s %s" % (a, i, self.val(10)))
            elif x < 860:
                ops.append("%s A%d %s" % (r.choice(["get", "in"]), a, self.idx(n)))
            elif x < 880:
                ops.append("geti A%d %d" % (a, r.choice([r.range(0, n + 3), r.range(-3, n + 3), I32MAX])))
            elif x < 900:
                ops.append("puti A%d %d %s" % (a, r.range(0, n + 6) if r.chance(9, 10) else r.range(n, n + 300), self.val(10)))
            elif x < 930:
                ops.append("asetcount A%d %d" % (a, r.range(-2, n + 10)))
            elif x < 950:
                ops.append("anew A%d %s" % (a, r.choice(["0", "1", "5", "-3", "64", "nil", "f2.5", str(r.range(0, 40))])))
                lens[a] = 0
            elif x < 965:
                ops.append("anewfilled A%d %s %s" % (a, r.choice([str(r.range(0, 30)), "-1", "nil"]), self.val(20)))
            elif x < 985:
                k = r.choice(["nil", str(r.range(-2, n + 2)), str(I32MAX - 1), "f0.5", str(-I32MAX - 1)])
                ops.append("next A%d %s" % (a, k))
            else:
                ops.append("len A%d" % a)
        for o in ops:
            self.note(o.split()[0])
        return ops

    def buffer_history(self, nops):
        r = self.r
        ops = []
        B = lambda: r.below(NB)
        lens = [0] * NB

        def barg():
            y = r.below(10)
            if y < 4:
                return str(r.choice([r.range(0, 255), r.range(-300, 600), I32MAX, -I32MAX - 1]))
            if y < 7:
                return "s" + "".join(chr(r.range(97, 122)) for _ in range(r.range(0, 9)))
            if y < 9:
                return "B%d" % B()
            return r.choice(["nil", "f1.5", "A0", "T0", ":kw", "2147483648"])
        for _ in range(nops):
            b = B()
            n = lens[b]
            x = r.below(1000)
            if x < 180:
                ops.append("bpush B%d %s" % (b, " ".join(barg() for _ in range(r.range(0, 4)))))
                lens[b] += 3
            elif x < 230:
                ops.append("bpushbyte B%d %s" % (b, " ".join(barg() if r.chance(1, 6) else str(r.range(-3, 300)) for _ in range(r.range(0, 4)))))
                lens[b] += 2
            elif x < 260:
                ops.append("bpushstr B%d %s" % (b, " ".join(barg() for _ in range(r.range(0, 3)))))
            elif x < 290:
                ops.append("bpushword B%d %s" % (b, " ".join(str(r.choice([r.range(0, 2**32 - 1), 0, 2**32 - 1, 2**32, 65536])) for _ in range(r.range(0, 3)))))
            elif x < 350:
                ops.append("bpushat B%d %s %s" % (b, self.idx(n), " ".join(barg() for _ in range(r.range(0, 3)))))
            elif x < 400:
                ops.append("bpopn B%d %s" % (b, r.choice([str(r.range(0, n + 2)), self.idx(n), self.count_near_max("0", n)])))
                lens[b] = max(0, n - 2)
            elif x < 440:
                ops.append("bfill B%d %s" % (b, r.choice(["", str(r.range(0, 255)), "300", "-1", "nil", "f0.5"])))
            elif x < 460:
                ops.append("btrim B%d" % b)
            elif x < 470:
                ops.append("bclear B%d" % b)
                lens[b] = 0
            elif x < 600:
                src = "B%d" % B() if r.chance(4, 5) else "s" + "".join(chr(r.range(97, 122)) for _ in range(r.range(0, 9)))
                args = [self.idx(n) for _ in range(r.range(0, 3))]
                ops.append("bblit B%d %s %s" % (b, src, " ".join(args)))
            elif x < 680:
                src = "B%d" % b if r.chance(4, 5) else "s" + "".join(chr(r.range(97, 122)) for _ in range(r.range(0, 9)))
                ops.append("bslice %s B%d %s" % (src, B(), " ".join(self.idx(n) for _ in range(r.range(0, 2)))))
            elif x < 760:
                i = self.idx(n) if r.chance(5, 6) else str(r.range(n, n + 40))
                ops.append("put B%d %s %s" % (b, i, r.choice([str(r.range(0, 255)), str(r.range(-300, 600)), "nil", "f1.5", "sab"])))
            elif x < 830:
                ops.append("%s B%d %s" % (r.choice(["get", "in"]), b, self.idx(n)))
            elif x < 850:
                ops.append("geti B%d %d" % (b, r.choice([r.range(0, n + 3), r.range(-3, n + 3)])))
            elif x < 870:
                ops.append("puti B%d %d %s" % (b, r.range(0, n + 6) if r.chance(9, 10) else r.range(n, n + 300), r.choice([str(r.range(0, 255)), "nil", "f1.5"])))
            elif x < 900:
                ops.append("bsetcount B%d %d" % (b, r.range(-2, n + 12)))
            elif x < 920:
                ops.append("bensure B%d %d %d" % (b, r.range(-2, n + 60), r.range(1, 3)))
            elif x < 940:
                if r.chance(1, 3):
                    ops.append("bpushbyte B%d 7" % b)       # non-empty, so that the overflow guard (not a 2 GB realloc) is what is met
                    ops.append("bextra B%d %d" % (b, I32MAX))
                else:
                    ops.append("bextra B%d %d" % (b, r.range(0, 40)))
            elif x < 960:
                ops.append("bnew B%d %s" % (b, r.choice(["0", "1", "4", "5", "-3", "64", "nil", "f2.5", str(r.range(0, 40))])))
                lens[b] = 0
            elif x < 975:
                ops.append("bnewfilled B%d %s %s" % (b, r.choice([str(r.range(0, 30)), "-1", "nil"]), r.choice(["", str(r.range(0, 255)), "300", "nil"])))
            elif x < 985:
                ops.append("next B%d %s" % (b, r.choice(["nil", str(r.range(-2, n + 2)), "f0.5"])))
            elif x < 995:
                ops.append("len B%d" % b)
            else:
                ops.append("bfrombytes B%d %s" % (b, " ".join(str(r.range(-300, 600)) if r.chance(9, 10) else r.choice(["nil", "f1.5", "sab", "2147483648"]) for _ in range(r.range(0, 6)))))
            if r.chance(1, 8):
                # buffer/bit*: bit index inside, at the boundary (8*count - 1, 8*count), negative, huge, ill-typed
                y = r.below(100)
                nb = 8 * max(0, lens[b])
                if y < 55:
                    bi = str(r.range(0, max(0, nb + 7)))
                elif y < 75:
                    bi = str(r.choice([nb - 1, nb, nb + 7, nb + 8, -1, 0, 7, 8]))
                elif y < 88:
                    bi = str(r.choice([2**31 * 8, 2**34 - 1, 2**40, 2**62, -2**40, I32MAX, 8 * I32MAX + 7]))
                else:
                    bi = r.choice(["nil", "f1.5", "sabc", "f1e30", ":kw", "f-0.5"])
                ops.append("%s B%d %s" % (r.choice(["bbitset", "bbitclear", "bbittoggle", "bbit", "bbit"]), b, bi))
        ops = [" ".join(o.split()) for o in ops]
        for o in ops:
            self.note(o.split()[0])
        return ops


def deep_proto_scenario(depth, key="K3"):
    """a prototype chain of `depth` tables with the key only in the deepest one: get must cut off at JANET_MAX_PROTO_DEPTH"""
    ops = ["put T0 %s v7" % key]
    cur, other = "T0", "T1"
    for i in range(depth - 1):
        ops += ["tnew %s 0" % other, "setproto %s %s" % (other, cur)]
        cur, other = other, cur
        if i in (0, 1, 197, 198, 199, 200, 201, depth - 2):
            ops += ["get %s %s" % (cur, key), "in %s %s" % (cur, key), "rawget %s %s" % (cur, key), "next %s nil" % cur, "len %s" % cur, "keys %s" % cur]
    ops += ["setproto T2 T2", "get T2 %s" % key, "put T2 %s v9" % key, "get T2 %s" % key, "setproto T3 T2", "get T3 %s" % key, "rawget T3 %s" % key, "pairs T3"]
    return ops


def deep_struct_proto_scenario(depth, key="K3"):
    """a struct prototype chain of `depth` structs with the key only in the deepest one: janet_struct_get_ex must find it
    through at most JANET_MAX_PROTO_DEPTH levels and cut off beyond; rawget / next / len never look past the struct itself"""
    ops = ["mkstruct S0 %s v7" % key]
    cur, other = "S0", "S1"
    for i in range(2, depth + 1):
        ops += ["mkstruct %s" % other, "withproto %s %s %s" % (other, cur, other)]
        cur, other = other, cur
        if i in (2, 3, 4, 199, 200, 201, 202, depth):
            ops += ["get %s %s" % (cur, key), "in %s %s" % (cur, key), "rawget %s %s" % (cur, key), "next %s nil" % cur, "len %s" % cur, "getproto %s" % cur]
    ops += ["totable %s T0" % cur, "len T0", "getproto T0"]
    return ops


CORPUS = os.path.join(VERIF, "corpus", "C04")


def corpus_histories():
    out = []
    if os.path.isdir(CORPUS):
        for f in sorted(os.listdir(CORPUS)):
            if f.endswith(".json"):
                with open(os.path.join(CORPUS, f)) as fh:
                    j = json.load(fh)
                out.append((f, j["ops"]))
    return out


# ----------------------------------------------------------------------------------------------------------------------
# running
def run_impl(hx, histories, full=True, per_home=80, timeout=900, lb=False):
    """returns (key_lines, list of per-history output lines or None (crash), crash info)"""
    lines = []
    for i, h in enumerate(histories):
        lines.append("hist %d" % i)
        lines += h
    args = [hx, "--per-home=%d" % per_home] + (["--full"] if full else []) + (["--lb"] if lb else [])
    rc, out, err = run_cmd(args, input=("\n".join(lines) + "\n").encode(), timeout=timeout, env=ENV)
    out = out.decode(errors="replace").splitlines()
    keys = [l for l in out if l.startswith("key")]
    body = out[len(keys):]
    res, pos = [], 0
    crashed = None
    for i, h in enumerate(histories):
        n = len(h) + 1
        chunk = body[pos:pos + n]
        pos += n
        if len(chunk) < n:
            res.append(chunk)
            if crashed is None:
                crashed = {"history": i, "op_index": len(chunk) - 1, "rc": rc, "stderr": err.decode(errors="replace")[-3000:]}
        else:
            res.append(chunk)
    return keys, res, crashed


def run_model(exe, keys, histories, full=True):
    lines = list(keys) + (["full"] if full else [])
    for i, h in enumerate(histories):
        lines.append("hist %d" % i)
        lines += h
    rc, out, err = run_cmd([exe], input=("\n".join(lines) + "\n").encode(), timeout=900)
    if rc != 0:
        raise RuntimeError("model driver failed: %r" % err[-500:])
    out = out.decode(errors="replace").splitlines()
    body = out[len(keys) + (1 if full else 0):]
    res, pos = [], 0
    for h in histories:
        res.append(body[pos:pos + len(h) + 1])
        pos += len(h) + 1
    return res


# ----------------------------------------------------------------------------------------------------------------------
# direct oracle (python dict / list replay), independent of the Lean model
def pv(tok):
    """value token -> printed form"""
    if tok in ("nil", "v0"):
        return "nil"
    if tok in ("false", "v1"):
        return "false"
    if tok in ("true", "v2"):
        return "true"
    return tok[1:] if tok.startswith("v") else tok


def as_i32(tok):
    try:
        v = int(tok)
    except ValueError:
        return None
    return v if -2**31 <= v <= I32MAX else None


class Obj:
    def __init__(self, d=None, proto=None):
        self.d = dict(d or {})
        self.proto = proto


def chain_get(o, k, limit=200):
    while o is not None and limit:
        if k in o.d:
            return o.d[k]
        o = o.proto
        limit -= 1
    return "nil"


def parse_state(line):
    """'res T0:... A0:count,cap,dg{items}' -> (res, {reg: fields}, {reg: items or None})"""
    i = line.find(" T0:")
    if i < 0:
        return line, {}, {}
    res, rest = line[:i], line[i + 1:]
    regs, items = {}, {}
    j = 0
    while j < len(rest):
        c = rest.find(":", j)
        name = rest[j:c]
        e = c + 1
        while e < len(rest) and rest[e] not in " {":
            e += 1
        fields = rest[c + 1:e].split(",")
        it = None
        if e < len(rest) and rest[e] == "{":
            f = rest.find("}", e)
            it = rest[e + 1:f]
            e = f + 1
        regs[name] = fields
        items[name] = it
        j = e + 1
    return res, regs, items


def seq_slice_args(n, args):
    """janet_getslice semantics as documented; returns (start, end) or None for error"""
    def half(tok, dflt):
        if tok is None or tok in ("nil", "v0"):
            return dflt
        v = as_i32(tok)
        if v is None:
            return None
        if v < 0:
            v += n + 1
        if v < 0 or v > n:
            return None
        return v
    s = half(args[0] if len(args) > 0 else None, 0)
    if s is None:
        return None
    e = half(args[1] if len(args) > 1 else None, n)
    if e is None:
        return None
    return s, max(s, e)


class Oracle:
    """Reference semantics: tables = python dicts + proto pointer; arrays / buffers = python lists."""

    def __init__(self):
        self.T = [Obj() for _ in range(NT)]
        self.S = [Obj() for _ in range(NS)]
        self.A = [[] for _ in range(NA)]
        self.B = [[] for _ in range(NB)]
        self.skip_seq_state = False

    def obj(self, tok):
        return self.T[int(tok[1:])] if tok[0] == "T" else self.S[int(tok[1:])]

    def check(self, op, line):
        """apply op to the reference, compare with the implementation's answer; returns None or a complaint"""
        res, regs, items = parse_state(line)
        t = op.split()
        name, x = t[0], (t[1] if len(t) > 1 else "")
        bad = None
        exp = None
        if name == "hist":
            self.__init__()
            return None
        kind = x[:1]
        if name in ("aslice", "bslice") and kind not in "AB":
            kind = name[0].upper()
        if kind in "TS" and x[1:].isdigit() and name not in ("aslice", "bslice"):
            o = self.obj(x)
            key = t[2] if len(t) > 2 else None
            storable = key is not None and key.startswith("K")
            if name == "put":
                if kind == "S":
                    exp = "err"
                else:
                    exp = "ok"
                    if storable:
                        if pv(t[3]) == "nil":
                            o.d.pop(key, None)
                        else:
                            o.d[key] = pv(t[3])
            elif name in ("get", "in"):
                exp = chain_get(o, key) if storable else "nil"
            elif name == "rawget":
                exp = o.d.get(key, "nil") if storable else "nil"
            elif name == "rem":
                exp = o.d.pop(key, "nil") if storable else "nil"
            elif name == "clear":
                o.d.clear()
                exp = "ok"
            elif name == "clone":
                self.T[int(t[2][1:])] = Obj(o.d, o.proto)
                exp = "ok"
            elif name == "setproto":
                o.proto = None if t[2] == "nil" else self.obj(t[2])
                exp = "ok"
            elif name == "len":
                exp = str(len(o.d))
            elif name == "next":
                if res != "nil" and res not in o.d:
                    bad = "next returned %s which is not a key of the table" % res
                if key == "nil" and (res == "nil") != (len(o.d) == 0):
                    bad = "next(nil) = %s on a table with %d entries" % (res, len(o.d))
            elif name in ("keys", "pairs", "values"):
                got = res[1:-1].split() if res.startswith("[") else None
                if got is None:
                    bad = "%s failed: %s" % (name, res)
                elif name == "keys":
                    if len(got) != len(set(got)) or set(got) != set(o.d):
                        bad = "keys visited %d keys (%d distinct), table has %d entries" % (len(got), len(set(got)), len(o.d))
                elif name == "pairs":
                    want = sorted("%s=%s" % kv for kv in o.d.items())
                    if sorted(got) != want:
                        bad = "pairs differ from the reference map (%d vs %d entries)" % (len(got), len(want))
                else:
                    if sorted(got) != sorted(o.d.values()):
                        bad = "values differ from the reference map"
            elif name in ("merge", "cmerge"):
                for s in t[2:]:
                    o.d.update(dict(self.obj(s).d))
                exp = "ok"
            elif name == "mergenew":
                d = {}
                for sname in t[2:]:
                    d.update(dict(self.obj(sname).d))
                self.T[int(x[1:])] = Obj(d, None)      # a constructor: the result has NO prototype
                exp = "ok"
            elif name in ("zipcoll", "frompairs"):
                if name == "zipcoll":
                    sep = t.index("/")
                    pairs_ = list(zip(t[2:sep], t[sep + 1:]))
                else:
                    pairs_ = [(t[i], t[i + 1]) for i in range(2, len(t) - 1, 2)]
                d = {}
                for kk, vv in pairs_:
                    if kk.startswith("K"):
                        if pv(vv) == "nil":
                            d.pop(kk, None)
                        else:
                            d[kk] = pv(vv)
                self.T[int(x[1:])] = Obj(d, None)
                exp = "ok"
            elif name == "update":
                exp = "ok"
                if storable:
                    v = chain_get(o, key)
                    if v == "nil":
                        o.d.pop(key, None)
                    else:
                        o.d[key] = v
            elif name == "getproto":
                regs_ = self.T if kind == "T" else self.S
                exp = "nil" if o.proto is None else str(next((j for j in range(len(regs_)) if regs_[j] is o.proto), -2))
            elif name == "tostruct":
                self.S[int(t[2][1:])] = Obj(o.d, None)
                exp = "ok"
            elif name == "totable":
                self.T[int(t[2][1:])] = Obj(o.d, None)
                exp = "ok"
            elif name == "tnew":
                self.T[int(x[1:])] = Obj()
                exp = "ok"
            elif name == "tnewweak":
                c = as_i32(t[2])
                if c is None or c < 0:
                    exp = "err"
                else:
                    self.T[int(x[1:])] = Obj()
                    exp = "ok"
            elif name == "freeze":
                # documented: deep immutable copy; same entries, the prototype chain frozen as well
                def frz(ob, lim=300):
                    return None if ob is None or lim == 0 else Obj(ob.d, frz(ob.proto, lim - 1))
                self.S[int(t[2][1:])] = frz(o)
                exp = "ok"
            elif name == "thaw":
                d, cur, lim = {}, o, 200
                while cur is not None and lim:
                    for k, v in cur.d.items():
                        d.setdefault(k, v)
                    cur = cur.proto
                    lim -= 1
                self.T[int(t[2][1:])] = Obj(d, None)
                exp = "ok"
            elif name == "flatten":
                d, cur, lim = {}, o, 200
                while cur is not None and lim:
                    for k, v in cur.d.items():
                        d.setdefault(k, v)
                    cur = cur.proto
                    lim -= 1
                self.T[int(t[2][1:])] = Obj(d, None)
                exp = "ok"
            elif name == "mkstruct":
                args = t[2:]
                if len(args) % 2:
                    exp = "err"
                else:
                    d = {}
                    for i in range(0, len(args), 2):
                        if args[i].startswith("K") and pv(args[i + 1]) != "nil":
                            d[args[i]] = pv(args[i + 1])
                    self.S[int(x[1:])] = Obj(d, None)
                    exp = "ok"
            elif name == "withproto":
                self.S[int(t[3][1:])] = Obj(o.d, None if t[2] == "nil" else self.obj(t[2]))
                exp = "ok"
            if exp is not None and res != exp:
                bad = "expected %s, implementation answered %s" % (exp, res)
            # length of every table / struct register = number of entries of the reference map
            if not bad:
                for i in range(NT):
                    f = regs.get("T%d" % i)
                    if f and int(f[1]) != len(self.T[i].d):
                        bad = "T%d: count field %s but the reference map has %d entries" % (i, f[1], len(self.T[i].d))
                for i in range(NS):
                    f = regs.get("S%d" % i)
                    if f and int(f[1]) != len(self.S[i].d):
                        bad = "S%d: length %s but the reference map has %d entries" % (i, f[1], len(self.S[i].d))
            # prototype link of every register (only setproto / clone / with-proto may create one)
            if not bad:
                for kind_, regs_, n_, col in (("T", self.T, NT, 4), ("S", self.S, NS, 3)):
                    for i in range(n_):
                        f = regs.get("%s%d" % (kind_, i))
                        if not f or len(f) <= col:
                            continue
                        po = regs_[i].proto
                        want = -1 if po is None else next((j for j in range(n_) if regs_[j] is po), -2)
                        if int(f[col]) != want:
                            bad = "%s%d: prototype link is %s, the reference says %d (-1 none, -2 a table no longer in a register)" % (kind_, i, f[col], want)
            return bad
        # ------------------------------------------------------------------ sequences
        if kind == "A":
            return self.check_array(name, t, res, regs, items)
        if kind == "B":
            return self.check_buffer(name, t, res, regs, items)
        return None

    # reference semantics of the array functions as documented (doc strings of array.c, `put`, `get`, `in`)
    def check_array(self, name, t, res, regs, items):
        x = t[1]
        exp = None
        vals = lambda toks: [pv(v) for v in toks]
        if name == "aslice":
            if x.startswith("["):
                src = [pv("v" + v) for v in x[1:-1].split(",") if v != ""]
            else:
                src = self.A[int(x[1:])]
            sl = seq_slice_args(len(src), t[3:])
            if sl is None:
                exp = "err"
            else:
                self.A[int(t[2][1:])] = list(src[sl[0]:sl[1]])
                exp = "ok"
        else:
            ai = int(x[1:])
            a = self.A[ai]
            n = len(a)
            if name == "apush":
                a += vals(t[2:])
                exp = "ok"
            elif name == "apop":
                exp = a.pop() if a else "nil"
            elif name == "apeek":
                exp = a[-1] if a else "nil"
            elif name == "ainsert":
                at = as_i32(t[2])
                if at is None:
                    exp = "err"
                else:
                    if at < 0:
                        at = n + at + 1
                    if at < 0 or at > n:
                        exp = "err"
                    else:
                        a[at:at] = vals(t[3:])
                        exp = "ok"
            elif name == "aremove":
                at = as_i32(t[2])
                cnt = 1
                if at is None:
                    exp = "err"
                else:
                    if at < 0:
                        at = n + at
                    if at < 0 or at > n:
                        exp = "err"
                    else:
                        if len(t) > 3:
                            cnt = as_i32(t[3])
                        if cnt is None or cnt < 0:
                            exp = "err"
                        else:
                            del a[at:at + cnt]
                            exp = "ok"
            elif name == "aconcat":
                add = []
                cur = list(a)
                for p in t[2:]:
                    if p.startswith("A"):
                        add += list(cur + add) if int(p[1:]) == ai else list(self.A[int(p[1:])])
                    elif p.startswith("["):
                        add += [pv("v" + v) for v in p[1:-1].split(",") if v != ""]
                    else:
                        add.append(pv(p))
                a += add
                exp = "ok"
            elif name == "ajoin":
                exp = "ok"
                for p in t[2:]:
                    if p.startswith("A"):
                        a += list(a) if int(p[1:]) == ai else list(self.A[int(p[1:])])
                    elif p.startswith("["):
                        a += [pv("v" + v) for v in p[1:-1].split(",") if v != ""]
                    else:
                        exp = "err"        # not an array or tuple: raises after the earlier parts were appended
                        break
            elif name == "afill":
                v = pv(t[2]) if len(t) > 2 else "nil"
                a[:] = [v] * n
                exp = "ok"
            elif name == "aensure":
                c, g = as_i32(t[2]), as_i32(t[3])
                exp = "err" if c is None or g is None or c < 1 or g < 1 else "ok"    # ill-typed / out-of-range arguments raise
            elif name in ("atrim",):
                exp = "ok"
            elif name == "aclear":
                a[:] = []
                exp = "ok"
            elif name == "put":
                i = as_i32(t[2])
                if i is None or i < 0 or i >= I32MAX - 1:
                    exp = "err"
                elif i > 5_000_000:
                    return None
                else:
                    if i >= n:
                        a += ["nil"] * (i + 1 - n)
                    a[i] = pv(t[3])
                    exp = "ok"
            elif name == "puti":
                i = int(t[2])
                if i >= n:
                    a += ["nil"] * (i + 1 - n)     # growth rule: a put past the end extends with nil
                a[i] = pv(t[3])
                exp = "ok"
            elif name == "get":
                i = as_i32(t[2])
                exp = a[i] if i is not None and 0 <= i < n else "nil"
            elif name == "in":
                i = as_i32(t[2])
                exp = a[i] if i is not None and 0 <= i < n else "err"
            elif name == "geti":
                i = int(t[2])
                exp = "err" if i < 0 else (a[i] if i < n else "nil")
            elif name == "asetcount":
                c = int(t[2])
                if c >= 0:
                    if c > n:
                        a += ["nil"] * (c - n)
                    else:
                        del a[c:]
                exp = "ok"
            elif name == "anew":
                c = as_i32(t[2])
                if c is None:
                    exp = "err"
                else:
                    self.A[ai] = []
                    exp = "ok"
            elif name == "anewfilled":
                c = as_i32(t[2])
                if c is None or c < 0:
                    exp = "err"
                else:
                    self.A[ai] = [pv(t[3]) if len(t) > 3 else "nil"] * c
                    exp = "ok"
            elif name == "next":
                if t[2] in ("nil", "v0"):
                    exp = "0" if n > 0 else "nil"
                else:
                    i = as_i32(t[2])
                    exp = str(i + 1) if i is not None and 0 <= i + 1 < n else "nil"
            elif name == "len":
                exp = str(n)
        if exp is not None and res != exp:
            return "expected %s, implementation answered %s" % (exp, res)
        for i in range(NA):
            f = regs.get("A%d" % i)
            if not f:
                continue
            if int(f[0]) != len(self.A[i]):
                return "A%d: count %s but the reference sequence has %d elements" % (i, f[0], len(self.A[i]))
            if int(f[0]) > max(0, int(f[1])):
                return "A%d: count %s exceeds capacity %s" % (i, f[0], f[1])
            if items.get("A%d" % i) is not None and len(self.A[i]) <= 4000:
                got = items["A%d" % i].split()
                if got != self.A[i]:
                    k = next((j for j in range(min(len(got), len(self.A[i]))) if got[j] != self.A[i][j]), -1)
                    return "A%d: contents differ from the reference sequence at index %d (impl %s, reference %s)" % (
                        i, k, got[k] if 0 <= k < len(got) else "?", self.A[i][k] if 0 <= k < len(self.A[i]) else "?")
        return None

    def bytes_arg(self, tok, self_idx, cur):
        if tok.startswith("B"):
            j = int(tok[1:])
            return list(cur) if j == self_idx else list(self.B[j])
        if tok.startswith("s") or tok.startswith(":"):
            return [ord(c) for c in tok[1:]]
        return None

    def check_buffer(self, name, t, res, regs, items):
        x = t[1]
        exp = None
        if name == "bslice":
            src = self.bytes_arg(x, -1, None)
            sl = seq_slice_args(len(src), t[3:])
            if sl is None:
                exp = "err"
            else:
                self.B[int(t[2][1:])] = list(src[sl[0]:sl[1]])
                exp = "ok"
        else:
            bi = int(x[1:])
            b = self.B[bi]
            n = len(b)

            def push_args(args, mode):
                """mode: 'any' (buffer/push), 'byte', 'str'; mutates b until the first bad argument"""
                for a in args:
                    iv = None
                    try:
                        iv = int(a)
                    except ValueError:
                        pass
                    if iv is not None and mode in ("any", "byte"):
                        if not (-2**31 <= iv <= I32MAX):
                            return "err"
                        b.append(iv & 0xFF)
                    elif mode in ("any", "str") and iv is None and self.bytes_arg(a, bi, b) is not None:
                        b.extend(self.bytes_arg(a, bi, b))
                    else:
                        return "err"
                return "ok"
            if name == "bpush":
                exp = push_args(t[2:], "any")
            elif name == "bpushbyte":
                exp = push_args(t[2:], "byte")
            elif name == "bpushstr":
                exp = push_args(t[2:], "str")
            elif name == "bpushword":
                exp = "ok"
                for a in t[2:]:
                    w = int(a)
                    if not (0 <= w < 2**32):
                        exp = "err"
                        break
                    b.extend([(w >> s) & 0xFF for s in (0, 8, 16, 24)])
            elif name == "bpushat":
                i = as_i32(t[2])
                if i is None or i < 0 or i > n:
                    exp = "err"
                else:
                    old = list(b)
                    del b[i:]
                    exp = push_args(t[3:], "any")
                    if exp == "ok" and len(b) < n:
                        b.extend(old[len(b):])
            elif name == "bpopn":
                k = as_i32(t[2])
                if k is None or k < 0:
                    exp = "err"
                else:
                    del b[max(0, n - k):]
                    exp = "ok"
            elif name == "bfill":
                v = 0
                if len(t) > 2:
                    v = as_i32(t[2])
                if v is None:
                    exp = "err"
                else:
                    b[:] = [v & 0xFF] * n
                    exp = "ok"
            elif name in ("btrim",):
                exp = "ok"
            elif name == "bclear":
                b[:] = []
                exp = "ok"
            elif name == "bblit":
                src = self.bytes_arg(t[2], bi, b)
                if src is None:
                    exp = "err"
                else:
                    def half(tok, length, dflt):
                        if tok in ("nil", "v0"):
                            return dflt
                        v = as_i32(tok)
                        if v is None:
                            return None
                        if v < 0:
                            v += length + 1
                        return v if 0 <= v <= length else None
                    ds = half(t[3], n, 0) if len(t) > 3 else 0
                    ss = half(t[4], len(src), 0) if len(t) > 4 and ds is not None else 0
                    se = half(t[5], len(src), len(src)) if len(t) > 5 and ds is not None and ss is not None else len(src)
                    if ds is None or ss is None or se is None:
                        exp = "err"
                    else:
                        chunk = src[ss:max(ss, se)]
                        if ds + len(chunk) > len(b):
                            b.extend([0] * (ds + len(chunk) - len(b)))
                        b[ds:ds + len(chunk)] = chunk
                        exp = "ok"
            elif name == "put":
                i = as_i32(t[2])
                v = as_i32(t[3])
                if i is None or i < 0 or i >= I32MAX - 1 or v is None:
                    exp = "err"
                elif i > 50_000_000:
                    return None
                else:
                    if i >= n:
                        b.extend([0] * (i + 1 - n))
                    b[i] = v & 0xFF
                    exp = "ok"
            elif name == "puti":
                i = int(t[2])
                v = as_i32(t[3])
                if v is None:
                    exp = "err"
                else:
                    if i >= n:
                        b.extend([0] * (i + 1 - n))   # growth rule: extends with zero bytes
                    b[i] = v & 0xFF
                    exp = "ok"
            elif name == "get":
                i = as_i32(t[2])
                exp = str(b[i]) if i is not None and 0 <= i < n else "nil"
            elif name == "in":
                i = as_i32(t[2])
                exp = str(b[i]) if i is not None and 0 <= i < n else "err"
            elif name == "geti":
                i = int(t[2])
                exp = "err" if i < 0 else (str(b[i]) if i < n else "nil")
            elif name == "bsetcount":
                c = int(t[2])
                if c >= 0:
                    if c > n:
                        b.extend([0] * (c - n))
                    else:
                        del b[c:]
                exp = "ok"
            elif name in ("bensure",):
                exp = "ok"
            elif name == "bextra":
                exp = "err" if int(t[2]) + n > I32MAX else "ok"
            elif name == "bnew":
                c = as_i32(t[2])
                if c is None:
                    exp = "err"
                else:
                    self.B[bi] = []
                    exp = "ok"
            elif name == "bnewfilled":
                c = as_i32(t[2])
                v = as_i32(t[3]) if len(t) > 3 else 0
                if c is None or v is None:
                    exp = "err"
                else:
                    self.B[bi] = [v & 0xFF] * max(0, c)
                    exp = "ok"
            elif name == "next":
                if t[2] in ("nil", "v0"):
                    exp = "0" if n > 0 else "nil"
                else:
                    i = as_i32(t[2])
                    exp = str(i + 1) if i is not None and 0 <= i + 1 < n else "nil"
            elif name == "len":
                exp = str(n)
            elif name in ("bbitset", "bbitclear", "bbittoggle", "bbit"):
                # documented: bit-index into the buffer; anything that is not an index of an existing bit raises
                try:
                    iv = int(t[2])
                except ValueError:
                    iv = None
                if iv is None or iv < 0 or (iv >> 3) >= n:
                    exp = "err"
                else:
                    byte, bit = iv >> 3, iv & 7
                    if name == "bbit":
                        exp = "true" if (b[byte] >> bit) & 1 else "false"
                    else:
                        exp = "ok"
                        b[byte] = (b[byte] | (1 << bit)) if name == "bbitset" else (b[byte] & ~(1 << bit) & 0xFF) if name == "bbitclear" else (b[byte] ^ (1 << bit))
            elif name == "bfrombytes":
                vs = [as_i32(a) for a in t[2:]]
                if any(v is None for v in vs):
                    exp = "err"
                else:
                    self.B[bi] = [v & 0xFF for v in vs]
                    exp = "ok"
        if exp is not None and res != exp:
            # a panic in the middle of buffer/push* leaves the bytes pushed so far: the reference did the same
            return "expected %s, implementation answered %s" % (exp, res)
        for i in range(NB):
            f = regs.get("B%d" % i)
            if not f:
                continue
            if int(f[0]) != len(self.B[i]):
                return "B%d: count %s but the reference sequence has %d bytes" % (i, f[0], len(self.B[i]))
            if int(f[0]) > int(f[1]):
                return "B%d: count %s exceeds capacity %s" % (i, f[0], f[1])
            if items.get("B%d" % i) is not None and len(self.B[i]) <= 4000:
                want = "".join("%02x" % v for v in self.B[i])
                if items["B%d" % i] != want:
                    return "B%d: contents differ from the reference byte sequence" % i
        return None


def oracle_history(ops, lines):
    """first (op index, complaint) where the implementation departs from the reference, or None"""
    o = Oracle()
    for i, (op, line) in enumerate(zip(ops, lines[1:])):
        c = o.check(op, line)
        if c:
            return i, c
    return None


# ----------------------------------------------------------------------------------------------------------------------
# direct oracle at the int32 boundary: a 1 GiB buffer pushed onto itself (2 * count > INT32_MAX).  Out of reach of the
# model driver (2^30 cells); the theorem side is `abs_buf_push_self` / `bpush_self_no_ub` on the regenerated shape flag.
BOUNDARY_SCRIPT = """(def b (buffer/new-filled 1073741824 1))
(print (try (do (buffer/push b b) "ok") ([e] (string "err: " e))))
(print (try (do (buffer/push-string b b) "ok") ([e] (string "err: " e))))
(print (try (do (buffer/push-at b 1073741824 b) "ok") ([e] (string "err: " e))))
(print (length b))
"""
BOUNDARY_EXPECT = ["err: buffer overflow", "err: buffer overflow", "err: buffer overflow", "1073741824"]


def boundary_oracle(ctx, script=BOUNDARY_SCRIPT):
    """None when the implementation raises "buffer overflow" three times and the buffer is unchanged; else a dict"""
    try:
        v = ctx.build.variant("asan")
    except BuildError as e:
        return {"kind": "build", "error": str(e)}
    path = "/var/tmp/c04-boundary-%d.janet" % os.getpid()
    with open(path, "w") as f:
        f.write(script)
    try:
        rc, out, err = run_cmd([v["janet"], path], timeout=300, env=ENV)
    finally:
        os.unlink(path)
    out = out.decode(errors="replace").splitlines()
    err = err.decode(errors="replace")
    if rc == 0 and out == BOUNDARY_EXPECT:
        return None
    what = "ubsan" if "runtime error" in err else ("asan" if "AddressSanitizer" in err else ("crash" if rc not in (0, 1) else "wrong"))
    return {"kind": "janet-script", "script": script, "rc": rc, "stdout": out[:10], "stderr": err[-2500:], "what": what,
            "expected": BOUNDARY_EXPECT}


def ddmin(ops, fails):
    """delta debugging: smallest sub-list of ops (order kept) on which `fails` still holds"""
    n = 2
    budget = 400
    while len(ops) >= 2 and budget > 0:
        chunk = max(1, len(ops) // n)
        reduced = False
        for i in range(0, len(ops), chunk):
            cand = ops[:i] + ops[i + chunk:]
            budget -= 1
            if cand and fails(cand):
                ops = cand
                n = max(n - 1, 2)
                reduced = True
                break
            if budget <= 0:
                break
        if not reduced:
            if chunk == 1:
                break
            n = min(len(ops), n * 2)
    return ops


def classify(ops, hx, exe, per_home):
    """run one history on implementation + model + oracle: dict(kind=None|'crash'|'oracle'|'diff', ...)"""
    keys, res, crashed = run_impl(hx, [ops], full=True, per_home=per_home, timeout=120, lb=True)
    lines = res[0] if res else []
    if crashed:
        k = max(0, crashed["op_index"])
        return {"kind": "crash", "op_index": k, "op": ops[k] if k < len(ops) else None, "stderr": crashed["stderr"], "rc": crashed["rc"]}
    orc = oracle_history(ops, lines)
    if orc:
        return {"kind": "oracle", "op_index": orc[0], "op": ops[orc[0]], "complaint": orc[1], "impl": lines[orc[0] + 1][:600]}
    if exe:
        m = run_model(exe, keys, [ops], full=True)[0]
        for i, (a, b) in enumerate(zip(lines, m)):
            if a != b:
                return {"kind": "diff", "op_index": i - 1, "op": ops[i - 1] if i else "hist", "impl": a[:1500], "model": b[:1500]}
    return {"kind": None}


def run(ctx, only_ops=None):
    quick = ctx.tier == "quick"
    broken = []
    # (A) regenerate
    try:
        ctx.build.boot()
        ctx.gen("Table.lean", gen_table.render(ctx.build.tree))
        ctx.gen("Seq.lean", gen_seq.render(ctx.build.tree))
    except ExtractError as e:
        broken.append("translator tools/gen/{table,seq}.py: %s" % e)
        ctx.broken.append(broken[-1])
    except BuildError as e:
        ctx.violation("build-failed", {"kind": "build", "error": str(e)}, found=False, what="tree does not build")
        return ctx.finish("proof", {"evaluations": 0, "distinct_nontrivial": 0})
    # (B,C) kernel check + audit
    thms = ["JanetModel.Props.C04." + n for n in THEOREM_NAMES]
    broken += ctx.obligations("JanetModel.Props.C04", thms)
    if not quick:
        ok, log = ctx.leanchecker("JanetModel.Props.C04")
        if not ok:
            broken.append("leanchecker JanetModel.Props.C04: " + log[-300:])
    # (D) correspondence
    exe = ctx.driver()
    try:
        hx = ctx.build.harness("asan", "c04hist", [os.path.join(VERIF, "harness/C04/hist.c")], extra_cflags=HARNESS_CFLAGS, extra_ld=HARNESS_CFLAGS)
    except BuildError as e:
        hx = None
        broken.append("harness does not compile against the current tree: %s" % str(e)[-600:])
        ctx.broken.append(broken[-1])
    per_home = 80
    cov = {"evaluations": 0, "distinct_nontrivial": 0}
    if not hx:
        ctx.violation("harness-build", {"kind": "broken-obligation", "broken": broken}, found=False, what="; ".join(broken)[:600])
        return ctx.finish("proof", cov)
    if only_ops is None:
        bo = boundary_oracle(ctx)
        if bo is not None:
            sig = "crash:bpush:%s" % bo.get("what", "?") if bo.get("what") != "wrong" else "oracle:bpush:boundary"
            ctx.violation(sig, bo, found=True,
                          what="a 1 GiB buffer pushed onto itself (buffer/push, push-string, push-at): expected \"buffer overflow\" three times and an unchanged "
                               "buffer, got rc=%s stdout=%r %s" % (bo.get("rc"), bo.get("stdout"), (bo.get("stderr") or "").strip().splitlines()[:1]))
    keys, _, _ = run_impl(hx, [], per_home=per_home)
    pool = [(int(l.split()[1]), int(l.split()[2])) for l in keys if l.startswith("key ")]
    # hypothesis `RankInj` of the struct theorems (to_struct_spec, with_proto_spec, freeze_level_spec): the janet_compare
    # ranks the harness reports for the pool keys are pairwise distinct
    ranks = [int(l.split()[3]) for l in keys if l.startswith("key ") and len(l.split()) > 3]
    if len(ranks) != len(pool) or len(set(ranks)) != len(ranks):
        broken.append("hypothesis RankInj of the struct theorems does not hold for the key pool: %d keys, %d distinct janet_compare ranks" % (len(pool), len(set(ranks))))
        ctx.broken.append(broken[-1])
    rck, kout, _ = run_cmd([hx, "--per-home=%d" % per_home, "--kinds"], timeout=300, env=ENV)
    kinds = {int(l.split()[1]): int(l.split()[2]) for l in kout.decode(errors="replace").splitlines() if l.startswith("kind ")}
    g = Gen(ctx.rng, pool, kinds)
    hists = []      # (label, ops)
    for name, ops in corpus_histories():
        hists.append(("corpus:" + name, ops))
    hists.append(("deep-proto", deep_proto_scenario(260)))
    hists.append(("deep-proto", deep_struct_proto_scenario(230)))
    if only_ops is not None:
        hists = [("replay", only_ops)]
    else:
        scale = float(os.environ.get("C04_SCALE", "1"))     # development aid only
        n_tab = int((4000 if quick else 30000) * scale)
        n_seq = int((1200 if quick else 8000) * scale)
        for i in range(n_tab):
            w = ctx.rng.choice([3, 6, 6, 12, 12, 24, 40, 40, 80, 160])
            hists.append(("table", g.table_history(ctx.rng.range(20, 260), w)))
        for i in range(40 if quick else 300):
            hists.append(("dup-literal", g.dup_literal_history()))
        for i in range(6 if quick else 40):
            hists.append(("growth", g.growth_history(ctx.rng.choice([130, 270, 530, 600]))))
        for i in range(n_seq):
            hists.append(("array", g.array_history(ctx.rng.range(10, 120))))
            hists.append(("buffer", g.buffer_history(ctx.rng.range(10, 120))))
    # run in parallel chunks; long histories first
    order = sorted(range(len(hists)), key=lambda i: -len(hists[i][1]))
    nchunks = 16 if len(hists) >= 16 else 1
    chunks = [[] for _ in range(nchunks)]
    for j, i in enumerate(order):
        chunks[j % nchunks].append(i)

    def work(idxs, full=None):
        if full is None:
            # table histories: state digests are enough (the oracle checks results and counts); sequence histories,
            # corpus and replays: full contents, so that the oracle can compare every element.  (Memory: a full dump
            # of 12 registers per op is several KB.)
            dig = [i for i in idxs if hists[i][0] in ("table", "growth", "deep-proto")]
            ful = [i for i in idxs if hists[i][0] not in ("table", "growth", "deep-proto")]
            return (work(dig, False) if dig else []) + (work(ful, True) if ful else [])
        hs = [hists[i][1] for i in idxs]
        k, res, crashed = run_impl(hx, hs, full=full, per_home=per_home)
        mod = run_model(exe, k, hs, full=full) if exe else None
        out = []
        for j, i in enumerate(idxs):
            lines = res[j] if j < len(res) else []
            ops = hists[i][1]
            if len(lines) < len(ops) + 1:
                out.append((i, "crash", max(0, len(lines) - 1), crashed))
                if crashed and crashed["history"] == j:
                    # everything after a crash in this chunk is lost: rerun the remaining histories separately
                    rest = idxs[j + 1:]
                    if rest:
                        out += work(rest, full)
                    break
                continue
            orc = oracle_history(ops, lines)
            if orc:
                out.append((i, "oracle", orc[0], orc[1]))
                continue
            for op_, line_ in zip(ops, lines[1:]):
                if line_.startswith("err"):
                    nm = op_.split(" ", 1)[0]
                    err_mix[nm] = err_mix.get(nm, 0) + 1
            if mod is not None:
                for q, (a, b) in enumerate(zip(lines, mod[j])):
                    if a != b:
                        out.append((i, "diff", q - 1, (a[:300], b[:300])))
                        break
        return out
    findings = []
    err_mix = {}
    with cf.ThreadPoolExecutor(16) as ex:
        for r in ex.map(work, [c for c in chunks if c]):
            findings += r
    nops = sum(len(h[1]) for h in hists)
    ctx.say("ran %d histories, %d ops; findings: %d" % (len(hists), nops, len(findings)))
    # (E) minimise and report
    reported = set()
    diffs = []
    # one bucket per (kind, exit status / failing op name): a frequent failure must not crowd out a rare one
    buckets = {}
    for f in sorted(findings, key=lambda f: (f[1] != "crash", f[1] != "oracle", len(hists[f[0]][1]))):
        i, kind, k, info = f
        if kind == "crash":
            key = ("crash", (info or {}).get("rc"))
        else:
            key = (kind, hists[i][1][k].split()[0] if 0 <= k < len(hists[i][1]) else "?")
        buckets.setdefault(key, [])
        if len(buckets[key]) < 3:
            buckets[key].append(f)
    todo = [f for key in sorted(buckets, key=lambda kk: (kk[0] != "crash", kk[0] != "oracle", str(kk[1]))) for f in buckets[key]]
    for i, kind, k, info in todo[:45]:
        ops = hists[i][1][:k + 1] if kind != "crash" else hists[i][1]

        def sig_of(c):
            if c["kind"] is None:
                return None
            opname = (c.get("op") or "?").split()[0]
            if c["kind"] == "crash":
                err = c.get("stderr", "")
                what = "ubsan" if "runtime error" in err else ("asan" if "AddressSanitizer" in err else "crash")
                if c.get("rc") == 97:
                    what = "hang"          # the harness' per-op alarm fired: the call did not return within 5 s
                elif c.get("rc") == 1 and "out of memory" in err:
                    what = "exit-oom"      # JANET_OUT_OF_MEMORY: the whole process exited
                return "crash:%s:%s" % (opname, what)
            if c["kind"] == "oracle":
                return "oracle:%s" % opname
            return "diff:%s" % opname
        c0 = classify(ops, hx, exe, per_home)
        s0 = sig_of(c0)
        if s0 is None:
            continue
        if s0 in reported:
            continue
        small = ddmin(ops, lambda cand: sig_of(classify(cand, hx, exe, per_home)) == s0)
        c = classify(small, hx, exe, per_home)
        reported.add(s0)
        rep = {"kind": c["kind"], "ops": small, "detail": c, "label": hists[i][0], "original_length": len(ops)}
        if c["kind"] in ("crash", "oracle"):
            what = (("implementation did not return within 5 s (hang) on `%s`" if s0.endswith(":hang") else
                     "implementation exited the process (janet out of memory) on `%s`" if s0.endswith(":exit-oom") else
                     "implementation crashed / sanitizer report on `%s`") % c.get("op")) if c["kind"] == "crash" else \
                   ("reference map/sequence replay disagrees with the implementation at `%s`: %s" % (c.get("op"), c.get("complaint")))
            ctx.violation(s0, rep, found=True, what=what)
        else:
            diffs.append(rep)
    if diffs:
        broken.append("correspondence model/impl: %d distinct differing op kinds, first at `%s`" % (len(diffs), diffs[0]["detail"].get("op")))
        ctx.broken.append(broken[-1])
    if broken and not ctx.nviol:
        ctx.violation("broken:" + broken[0][:80], {"kind": "broken-obligation", "broken": broken, "diffs": diffs[:5],
                                                   "ops": diffs[0]["ops"] if diffs else []}, found=False,
                      what="no longer shown to hold: " + "; ".join(broken)[:600])
    kinds = {}
    for lab, ops in hists:
        kinds[lab.split(":")[0]] = kinds.get(lab.split(":")[0], 0) + 1
    cov = {
        "evaluations": nops,
        "distinct_nontrivial": len(set(" ".join(h[1]) for h in hists)),
        "rule": "one evaluation = one operation executed on the real implementation (ASan+UBSan) and on the Lean model with result + full register "
                "state compared, and checked against the python reference map/sequence; non-trivial = distinct history",
        "samples": [" ; ".join(h[1][:6]) for h in hists[:2]] + [" ; ".join(h[1][:6]) for h in hists[-2:]],
        "histories": len(hists), "history_kinds": kinds, "op_mix": dict(sorted(g.stats.items(), key=lambda kv: -kv[1])),
        "key_pool": {"size": len(pool), "homes_mod_1024": sorted(set(h & 1023 for _, h in pool if (h & 1023) in (0, 1, 2, 1023, 1022, 511, 512, 255)))},
        "errors_raised_by_op": dict(sorted(err_mix.items(), key=lambda kv: -kv[1])),
        "findings": len(findings), "correspondence_diffs": len(diffs),
    }
    return ctx.finish("proof", cov, assumptions=[
        "keys abstracted to (id, hash); janet_equals / janet_hash / janet_compare themselves are C03's subject (harness supplies real hashes and compare ranks)",
        "int32 overflow of 2*count+2 in janet_table_put not modelled (needs > 2^29 entries)",
        "buffer/bit*: a bit index outside int64 is converted by an out-of-range double->int64 cast (x86-64: INT64_MIN, then rejected); modelled as rejected",
        "buffer/push-word: (uint32_t) of a double outside [0, 2^32) is the x86-64 conversion; modelled as 'word != number -> error'",
    ])


def replay(ctx, path):
    with open(path) as f:
        r = json.load(f)
    ops = r.get("ops") or []
    print(json.dumps({k: v for k, v in r.items() if k != "detail"}, indent=1)[:3000])
    if r.get("kind") == "janet-script":
        bo = boundary_oracle(ctx, r["script"])
        if bo is not None:
            ctx.violation(r.get("signature", "crash:bpush:replay"), bo, found=True, what="replayed script still fails: rc=%s %r" % (bo.get("rc"), bo.get("stdout")))
        return ctx.finish("proof", {"evaluations": 1, "distinct_nontrivial": 1, "rule": "replay of one janet script on the asan build", "samples": [r["script"][:200]]})
    return run(ctx, only_ops=ops)
