"""C02 - compiled bytecode computes what the source program means.

Pipeline:
  (A) regenerate Gen/Bytecode.lean (opcode table) from the current tree
  (B,C) kernel-check Props/C02 (emit layer, reference semantics) + axiom audit
  (D1) correspondence Emit/Model vs the real emit.c/regalloc.c (wrapper TU, emitted words)      [when built]
  (D2) translation validation: real compile -> serialised funcdefs -> Lean VM (jm_c02) vs real VM [when built]
  (E)  direct oracles on the implementation, independent of Lean:
       - targeted corpus (corpus/C02/targeted.json)
       - generated programs x embedding contexts: implementation vs independent reference interpreter (Python),
         and context independence on the implementation alone (same E in every context => same value/trace/error+pos)
"""
import hashlib
import json
import os
import concurrent.futures as cf

from vlib.core import VERIF
from vlib.build import BuildError
from tools.gen import bytecode as gen_bytecode
from tools.gen import fiberframe as gen_fiberframe
from tools.gen import compile as gen_compile
from tools.gen.csrc import ExtractError
from harness.C02 import gen, oracle

from harness.C02.lean_parts import THEOREMS, lean_stage, tv_stage, sem_stage, compile_stage

KNOWN_WHAT = {
    "far-upvalue-index-truncated": "closure captures a local living in a register > 255: LOAD_UPVALUE/SET_UPVALUE index is truncated to 8 bits",
    "reduce-into-hinted-target": "(set v (op a b v)) with >= 3 operands accumulates into v's own register before v is read (near local only: context dependent)",
    "far-local-capture-rejected": "closure capturing a local in a register > 255 is rejected at compile time (8-bit upvalue index)",
    "jump-offset-overflow": "if branch / while body > 32767 instructions: 16-bit conditional jump offset overflows silently",
    "large-branch-rejected": "if branch / while body > 32767 instructions is rejected at compile time ('jump is too far')",
    "destructure-rest-far-registers": "`& rest` destructuring loop is emitted without write-back, wrong with > 255 live locals",
    "break-jump-off-by-one": "break at the top of a `while true` loop of exactly 0x7FFFFF instructions is patched with jump offset 0x800000 = -0x800000 in the VM's signed 24-bit field (janetc_while checks the jump back, not the longest break jump)",
    "params-past-temp-registers": "function with > 240 parameters: parameter k >= 240 lives in register k+16 (allocator skips temporaries 0xF0-0xFF) but argument k arrives in slot k",
}


def canon(ctxname, o):
    fin = o["final"] or "NONE"
    if ctxname == "fn_dropped" and fin.startswith("V "):
        fin = "V *"
    return (tuple(o["trace"]), fin)


def run(ctx):
    quick = ctx.tier == "quick"
    broken = []
    # ---------------------------------------------------------------- (A)
    try:
        ctx.build.boot()
        ctx.gen("Bytecode.lean", gen_bytecode.render(ctx.build.tree))
        ctx.gen("FiberFrame.lean", gen_fiberframe.render(ctx.build.tree))
        ctx.gen("Compile.lean", gen_compile.render(ctx.build.tree))
    except ExtractError as e:
        broken.append("translator tools/gen (bytecode.py / fiberframe.py / compile.py): %s" % e)
        ctx.broken.append(broken[-1])
    except BuildError as e:
        ctx.violation("build-failed", {"kind": "build", "error": str(e)}, found=False, what="tree does not build")
        return ctx.finish("translation_validation", {"programs": 0, "disagreements_checked": 0, "samples": ["build failed"]})
    v = ctx.try_variant("plain")
    if v is None:
        return ctx.finish("translation_validation", {"programs": 0, "disagreements_checked": 0, "samples": ["build failed"]})
    janet = v["janet"]
    lean_cov = {}
    # ---------------------------------------------------------------- (B,C,D)
    lean_cov = lean_stage(ctx, broken, quick)

    # ---------------------------------------------------------------- (E) targeted corpus first
    corpus = json.load(open(os.path.join(VERIF, "corpus/C02/targeted.json")))
    import re as _re
    for c in corpus:     # {{N*TEXT}} = TEXT repeated N times (huge-body scenarios)
        c["src"] = _re.sub(r"\{\{(\d+)\*(.*?)\}\}", lambda m: m.group(2) * int(m.group(1)), c["src"])
    cases = [("c%d" % i, c["e0"], c["src"]) for i, c in enumerate(corpus)]
    got, problems = oracle.run_impl_parallel(janet, cases, jobs=8)
    reported = set()
    corpus_fail = 0
    for i, c in enumerate(corpus):
        g = got.get("c%d" % i)
        ok = g is not None and g["final"] == c["expect_final"] and (not c["expect_trace"] or g["trace"] == c["expect_trace"])
        fin = (g or {}).get("final") or ""
        if not ok:
            corpus_fail += 1
            sig = c.get("sig") or ("corpus:" + c["name"])
            # where a fix turned a miscompilation into a compile error the result is still not what the property asks for
            # (a well-formed program does not compile): reported under its own signature
            if fin.startswith(oracle.LIMIT_PREFIX):
                sig = "far-local-capture-rejected"
                c = dict(c, what="well-formed program whose closure captures a local living in a register > 255 is rejected with a compile error")
            elif fin.startswith("C jump is too far"):
                sig = "large-branch-rejected"
                c = dict(c, what="well-formed program with an if branch / while body of more than 32767 instructions is rejected with the compile error 'jump is too far' (16-bit conditional jump offset)")
            if sig not in reported:
                reported.add(sig)
                ctx.violation(sig, {"kind": "corpus", "name": c["name"], "source": c["src"] if len(c["src"]) < 20000 else c["src"][:2000] + " ...[%d chars]" % len(c["src"]), "expected": {"final": c["expect_final"], "trace": c["expect_trace"]},
                                    "observed": g}, what=c.get("what") or ("targeted scenario %s fails" % c["name"]))
    ctx.say("corpus: %d scenarios, %d failing" % (len(corpus), corpus_fail))

    # ---------------------------------------------------------------- (E) generated programs x contexts
    nprog = 400 if quick else 6000
    if broken:
        nprog *= 2
    contexts = gen.CONTEXTS
    jobs = 16
    step = max(1, (nprog + jobs * 4 - 1) // (jobs * 4))
    rng = ctx.rng.fork("programs")
    items = []
    with cf.ProcessPoolExecutor(jobs) as ex:
        futs = [ex.submit(oracle.gen_cases, rng.s, lo, min(nprog, lo + step), 7, contexts) for lo in range(0, nprog, step)]
        for f in futs:
            items += f.result()
    # deterministic operand-width-boundary family (every 8-bit / 16-bit form selection of the compiler at b-1, b, b+1)
    nbound = len(gen.boundary_programs())
    with cf.ProcessPoolExecutor(jobs) as ex:
        futs = [ex.submit(oracle.gen_boundary_cases, nprog, lo, lo + 3, contexts) for lo in range(0, nbound, 3)]
        for f in futs:
            items += f.result()
    ctx.say("generated %d programs x %d contexts + %d operand-width-boundary programs x %d contexts" % (nprog, len(contexts), nbound, len(contexts)))
    todo = [it for it in items if it["ref"]["kind"] != "skip"]
    skipped_ref = len(items) - len(todo)
    cases = [("%d.%s" % (it["prog"], it["ctx"]), it["e0"], it["src"]) for it in todo]
    got, problems = oracle.run_impl_parallel(janet, cases, jobs=jobs)
    ctx.say("implementation ran %d cases" % len(got))
    died = {p["case"]: p for p in problems}
    # ---------------------------------------------------------------- (D2) translation validation through the Lean VM
    tv_cov, tv_dis = tv_stage(ctx, broken, todo, got)
    lean_cov.update(tv_cov)
    ctx.say("translation validation: %s" % tv_cov)
    for dd in tv_dis[:5]:
        # the Lean VM and the real VM ran the SAME bytecode: a difference is a VM-model / VM discrepancy, reported with the program
        ctx.violation("tv:" + hashlib.sha256(dd["source"].encode()).hexdigest()[:12], dict(dd, kind="lean-vm-vs-real-vm"),
                      what="Lean VM and real VM disagree on the bytecode the real compiler produced for %s" % dd["case"])
    # ---------------------------------------------------------------- second reference: Lean Lang/Sem on the real macro expansion
    sem_cov, sem_dis = sem_stage(ctx, broken, janet, todo, got)
    lean_cov.update(sem_cov)
    ctx.say("Lang/Sem: %s" % sem_cov)
    sem_bad = {dd["case"] for dd in sem_dis}
    # ---------------------------------------------------------------- (D4) compiler model vs real compile.c/specials.c, word for word
    comp_cov = compile_stage(ctx, broken, quick, [it for it in todo if it["ctx"] != "top" and not it.get("boundary")])
    lean_cov.update(comp_cov)
    ctx.say("compile correspondence: core %s general %s diffs %s" % (comp_cov.get("comp_core"), comp_cov.get("comp_general"), comp_cov.get("comp_diffs")))
    byprog = {}
    for it in todo:
        byprog.setdefault(it["prog"], []).append(it)
    n_cmp = n_dis = n_limit = n_ctxdiff = 0
    feats = {}
    outcome_kinds = {"V": 0, "X-user": 0, "X-runtime": 0}
    distinct = set()
    failures = []     # (prog, ctx, kind, item, observed)
    for prog, its in sorted(byprog.items()):
        obs = {}
        for it in its:
            cid = "%d.%s" % (prog, it["ctx"])
            g = got.get(cid)
            if g is None or g["final"] is None:
                g = {"trace": [], "final": "DIED no-output"}
            if g["final"].startswith(oracle.LIMIT_PREFIX):
                n_limit += 1
                continue
            n_cmp += 1
            exp = (tuple(it["ref"]["trace"]), oracle.ref_final(it["ref"]))
            if (tuple(g["trace"]), g["final"]) != exp:
                n_dis += 1
                failures.append((prog, it["ctx"], "ref-disagree", it, g))
            elif cid in sem_bad:
                n_dis += 1
                failures.append((prog, it["ctx"], "leansem-disagree", it, g))
            obs[it["ctx"]] = canon(it["ctx"], g)
        # context independence on the implementation alone
        if obs:
            base_ctx = "top" if "top" in obs else sorted(obs)[0]
            base = obs[base_ctx]
            for cname, o in sorted(obs.items()):
                b = base
                if cname == "fn_dropped" and base[1].startswith("V "):
                    b = (base[0], "V *")
                if o != b:
                    n_ctxdiff += 1
                    it = next(i for i in its if i["ctx"] == cname)
                    failures.append((prog, cname, "context-dependent(vs %s)" % base_ctx, it, {"trace": list(o[0]), "final": o[1], "base": {"trace": list(base[0]), "final": base[1]}}))
        it0 = its[0]
        for f in it0["feats"]:
            feats[f] = feats.get(f, 0) + 1
        r = it0["ref"]
        if r["kind"] == "V":
            outcome_kinds["V"] += 1
        elif r["val"] == "<rt>":
            outcome_kinds["X-runtime"] += 1
        else:
            outcome_kinds["X-user"] += 1
        if it0["size"] >= 12 and (r["trace"] or r["kind"] == "X"):
            distinct.add(hashlib.sha256(it0["src"].encode()).hexdigest())
    # attribute failures (members of the boundary family first: they name the bound that is wrong)
    failures.sort(key=lambda f: 0 if f[3].get("boundary") else 1)
    n_boundary_fail = sum(1 for f in failures if f[3].get("boundary"))
    unattributed = 0
    for prog, cname, kind, it, g in failures:
        sigs = oracle.attribute(cname, it["src"])
        if not sigs and it.get("hintpat"):
            sigs = ["reduce-into-hinted-target"]
        sig = None
        for s in sigs:
            if s in reported:
                sig = s
                break
        if sig is not None:
            continue     # same root cause as an already reported (corpus-confirmed) defect
        unattributed += 1
        sig = "%s:%s" % (kind.split("(")[0], hashlib.sha256(it["src"].encode()).hexdigest()[:12])
        if sig in reported or unattributed > 8:
            continue
        reported.add(sig)
        ctx.violation(sig, {"kind": kind, "program": prog, "context": cname, "source": it["src"], "e0": it["e0"],
                            "reference": {"trace": it["ref"]["trace"], "final": oracle.ref_final(it["ref"])}, "observed": g,
                            "features": it["feats"], "candidate_causes": sigs, "boundary_family_member": it.get("boundary")},
                      what="generated program %d in context %s: %s%s" % (prog, cname, kind, (" (operand-width-boundary family: %s)" % it["boundary"]) if it.get("boundary") else ""))
    if broken and not ctx.nviol:
        ctx.violation("broken:" + broken[0][:80], {"kind": "broken-obligation", "broken": broken}, found=False,
                      what="no longer shown to hold: " + "; ".join(broken)[:600])
    sample_items = [it for it in todo if it["ctx"] == "fn_tail"][:3]
    cov = {
        "programs": len(byprog),
        "disagreements_checked": n_cmp,
        "evaluations": n_cmp + len(corpus),
        "distinct_nontrivial": len(distinct),
        "rule": "typed random programs (statements + result tuple) over special forms, closures over mutable variables, loops with break, destructuring, "
                "&opt/&/&keys/&named parameters, named recursion, quasiquote, core control macros; each embedded in %d contexts %s; non-trivial = distinct program "
                "of >= 12 nodes with at least one effect or an error; compared: value, ordered effect trace, error value class and (line, column)" % (len(contexts), contexts),
        "samples": [{"context": it["ctx"], "source": it["src"][:1500], "reference": oracle.ref_final(it["ref"]), "trace": it["ref"]["trace"][:10]} for it in sample_items] or ["none"],
        "contexts": contexts,
        "ref_disagreements": n_dis, "context_dependences": n_ctxdiff, "limit_compile_errors": n_limit, "skipped_by_reference": skipped_ref,
        "corpus_scenarios": len(corpus), "corpus_failing": corpus_fail,
        "boundary_programs": nbound, "boundary_cases": sum(1 for it in todo if it.get("boundary")), "boundary_failures": n_boundary_fail,
        "boundary_members": sorted({it["boundary"] for it in todo if it.get("boundary")}),
        "feature_histogram": dict(sorted(feats.items())),
        "outcome_kinds": outcome_kinds,
        "size_max": max([it["size"] for it in todo] or [0]), "depth_max": max([it["depth"] for it in todo] or [0]),
    }
    cov.update(lean_cov)
    ctx.say("programs %d, comparisons %d, ref disagreements %d, context dependences %d, limit %d, outcomes %s" % (len(byprog), n_cmp, n_dis, n_ctxdiff, n_limit, outcome_kinds))
    return ctx.finish("translation_validation", cov, assumptions=[
        "reference semantics: harness/C02/refint.py (Python, independent) and lean/JanetModel/Lang/Sem.lean; both are specification choices",
        "programs whose meaning depends on janet's late read of operands ((tuple m (set m 5)) = (5 5); a spliced array is read when the call is made, after later operands may have changed it) or on the hash order of table/struct literal entries are excluded by the generator",
        "runtime-raised error values are compared as a class (<rt>), user-raised error values exactly; positions exactly",
        "compile error 'cannot capture local in closure' (register limit) is accepted as a resource limit, not as a wrong result",
    ])


def replay(ctx, path):
    r = json.load(open(path))
    print(json.dumps({k: r[k] for k in r if k != "source"}, indent=1)[:3000])
    src = r.get("source")
    if src:
        v = ctx.try_variant("plain")
        got, problems = oracle.run_impl(v["janet"], [("replay", r.get("e0", 0), src)])[:2], None
        print("observed now:", got[0].get("replay"))
        exp = r.get("expected") or r.get("reference")
        print("expected:", exp)
        g = got[0].get("replay")
        if g and exp and g["final"] == exp.get("final") and (not exp.get("trace") or g["trace"] == exp["trace"]):
            print("replay: passes now")
            return 0
        print("VIOLATION property=C02 replay=%s" % path)
        return 1
    return run(ctx)
