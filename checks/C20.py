"""C20 - programs end when work is done; steady-state resources stay bounded.

Pipeline:
 (A) tools/gen/loop.py regenerates Gen/Loop.lean from ev.c / gc.c / os.c: the janet_loop_done expression, every site that
     increments / decrements listener_count, every janet_gcroot / janet_gcunroot made by an event-loop operation;
     tools/gen/fds.py regenerates Gen/Fds.lean from ev.c / net.c / os.c / io.c / filewatch.c: every descriptor-creating /
     -closing / -wrapping call site and every call that can raise inside a function that creates descriptors.
 (B,C) kernel re-checks Props/C20 (counter invariant by induction over all transition sequences, no_premature_exit,
     no_hang_when_idle, stale timers, roots_balanced) + axiom audit.
 (D) correspondence: the wrapper-TU harness (harness/C20/c20loop.c, ASan) logs every semantic bookkeeping transition of the
     real event loop while it runs generated task mixes; the Lean model replays the log and must agree with the real
     janet_vm.listener_count / tq_count / run-queue length / root_count after EVERY janet_loop1 step.
 (E) direct oracles on the implementation, independent of the model:
     - termination: every expected completion is logged before the loop returns (no premature exit); the loop returns once
       they all are (no hang; logical criterion per step: loop_done <-> nothing outstanding in an independent ground truth
       obtained by heap walk + self-pipe fill + helper-thread count; wall-clock watchdog only as a backstop);
     - boundedness: each operation cycle repeated N and 2N times; descriptors, children, zombies, gc roots, live heap blocks
       (after forced collection), listener count, timer count must plateau.
"""
import json
import os
import re
import sys
import concurrent.futures as cf

from vlib.core import run_cmd, VERIF
from vlib.build import BuildError

from tools.gen import loop as gen_loop
from tools.gen import fds as gen_fds
from tools.gen import fdpaths as gen_fdpaths
from tools.gen import rootpaths as gen_rootpaths
from tools.gen import ctrpaths as gen_ctrpaths
from tools.gen.csrc import ExtractError

sys.path.insert(0, os.path.join(VERIF, "harness", "C20"))
import gen as c20gen  # noqa: E402

THEOREMS = ["JanetModel.Props.C20." + t for t in (
    "done_expr_match", "counter_sites_match", "poll_phase_match", "root_sites_match", "stream_close_match",
    "proc_gc_match", "finalizer_reaps_every_child", "nohang_finalizer_leaves_zombies",
    "orphan_le_lis", "streamClose_releases_all", "close_with_two_listeners_orphans_writer", "orphan_listener_never_done",
    "step_inv", "run_inv", "loop1_inv", "janetLoop_inv", "janetLoop_exit_nothing_outstanding", "listener_count_inv", "no_premature_exit", "no_hang_when_idle", "loopDone_iff_idle",
    "null_event_keeps_loop_alive", "nullStuck_zero", "loopDone_iff_idle_fixed", "collected_suspended_task_keeps_count",
    "dropStale_all_stale", "dropStale_head_live", "dropStale_sublist", "stale_timers_cannot_keep_loop_alive", "pollPrelude_counters",
    "roots_balanced", "tchanLeaked_zero", "roots_balanced_released", "tchan_root_never_released", "gc_listener_leaves_stream_root",
    # descriptors (session 3): site table = model, ownership invariant, every C function balanced for all inputs, fds_balanced
    "fd_sites_match", "fd_cfg_match", "os_execute_no_leak", "net_listen_no_leak", "fd_op_ok", "fd_exec_inv", "fds_balanced",
    "fds_cycle_restores", "fds_from_start", "spawn_arg_error_leaks", "spawn_stdio_fail_leaks", "fopen_bad_size_leaks",
    "connect_fail_double_close", "os_execute_check_detects",
    # full subprocess-handle lifecycle (session 3)
    "child_sites_match", "child_step_inv", "child_run_inv", "no_zombie_accumulates", "outstanding_wait_completes",
    "kill_in_callback_window_hits_reaped_pid",
    # session 4: the self pipe (edge-triggered registration, draining handler): nothing written by another thread is ever stranded
    "selfpipe_cfg_drains", "selfpipe_handle_conserve", "selfpipe_handle_drains", "selfpipe_conservation", "selfpipe_no_event_stranded",
    "selfpipe_all_delivered_after_poll", "selfpipe_gen_no_event_stranded", "bounded_read_strands_events",
    # session 4: every control-flow path of 10 descriptor-creating functions, extracted from the source, replayed in Lean
    "fd_paths_ok", "fd_paths_sites_in_table", "fd_paths_cover_sites", "fd_run_count", "fd_paths_balanced",
    # session 4: every control-flow path of the functions that pin / release objects for an event-loop operation
    "root_paths_ok", "root_paths_functions", "root_ops_match_model",
    # session 4b: the conditions under which each listener_count site is executed, as truth tables over the branches of every path
    "counter_vocab_match", "counter_paths_ok", "counter_paths_cover_sites", "counter_ops_match_model", "counter_stale_task_not_counted",
    "counter_cfg_match")]

ENV = dict(os.environ, ASAN_OPTIONS="detect_leaks=0:abort_on_error=0", UBSAN_OPTIONS="print_stacktrace=1")
SCRATCH = "/var/tmp/janet-verif-c20"
LEAK_METRICS = ["fds", "children", "zombies", "roots", "blocks", "lc", "tq", "rq", "fibers", "shared"]   # "threads" is reported, not judged


def _kv(fields):
    d = {}
    for x in fields:
        if "=" in x:
            k, v = x.split("=", 1)
            try:
                d[k] = int(v)
            except ValueError:
                d[k] = v
    return d


import threading
_seq = [0]
_seq_lock = threading.Lock()


def run_group(cmd, timeout, env):
    """Like vlib.core.run_cmd, but the harness runs in its own process group, its output goes to (anonymous) files, and the whole group
    is killed as soon as the harness itself has exited.  A script that fails half way (a mutated tree: `COUNTER-LEAK`, a logical hang
    report) can leave the subprocesses it spawned behind (`sleep 100000`, `cat`); they inherit the output descriptors, and with pipes
    the reader would wait for THEIR exit - the verdict was there after a second but the check sat for hours (seen with mutants m7, M-f)."""
    import signal
    import subprocess
    import tempfile
    os.makedirs(SCRATCH, exist_ok=True)
    with tempfile.TemporaryFile(dir=SCRATCH) as fo, tempfile.TemporaryFile(dir=SCRATCH) as fe:
        p = subprocess.Popen(cmd, stdin=subprocess.DEVNULL, stdout=fo, stderr=fe, env=env, start_new_session=True)
        try:
            rc = p.wait(timeout=timeout)
        except subprocess.TimeoutExpired:
            rc = None
        finally:
            try:
                os.killpg(p.pid, signal.SIGKILL)
            except (ProcessLookupError, PermissionError):
                pass
            p.wait()
        fo.seek(0)
        fe.seek(0)
        return rc, fo.read(), fe.read()


def run_script(hx, src, tag, args=(), timeout=3000, watchdog=1200):
    os.makedirs(SCRATCH, exist_ok=True)
    with _seq_lock:
        _seq[0] += 1
        k = _seq[0]
    p = os.path.join(SCRATCH, "%d-%d-%s.janet" % (os.getpid(), k, tag))
    with open(p, "w") as f:
        f.write(src)
    try:
        rc, out, err = run_group([hx, "--watchdog", str(watchdog)] + list(args) + [p], timeout=timeout, env=ENV)
    finally:
        try:
            os.unlink(p)
        except OSError:
            pass
    return rc, out.decode(errors="replace"), err.decode(errors="replace")


# ------------------------------------------------------------------------------------------------ cycles

# logical hang criteria printed by the harness right before the loop would block for ever (harness/C20/c20loop.c, epoll_wait hook)
HANG_TAGS = ("IDLE-NOT-DONE", "STALE-TIMERS-BLOCK", "NO-WAKE-SOURCE", "SELFPIPE-STRANDED")

def judge_cycle(name, n, rc, out, err, metrics=None):
    """-> (verdict dict)  verdict['leaks'] = {metric: (p1, p2)}; verdict['fail'] = text if the run itself failed"""
    ms = {}
    for l in out.splitlines():
        if l.startswith("MEASURE "):
            f = l.split()
            ms[f[1]] = _kv(f[2:])
    v = {"name": name, "N": n, "measures": ms, "leaks": {}, "fail": None}
    if rc != 0 or "RETURNED" not in out or len(ms) < 3:
        why = ("hang: " + [l for l in out.splitlines() if l.startswith(HANG_TAGS)][0]) if any(t in out for t in HANG_TAGS) else (
            "watchdog: event loop did not return" if "WATCHDOG" in out else ("timeout" if rc is None else "rc=%s" % rc))
        errs = [l.strip() for l in err.splitlines() if l.startswith("error:") or "AddressSanitizer" in l or "runtime error" in l]
        if errs:
            why += "; script/sanitizer error: " + errs[0][:300]
        v["fail"] = "%s; stdout tail: %s; stderr tail: %s" % (why, out[-400:], err[-1200:])
        return v
    thr = max(3, n // 10)
    for k in (metrics or LEAK_METRICS):
        d = ms["p2"].get(k, 0) - ms["p1"].get(k, 0)
        if d >= thr:
            v["leaks"][k] = (ms["p0"].get(k), ms["p1"].get(k), ms["p2"].get(k))
    ret = [l for l in out.splitlines() if l.startswith("RETURNED")]
    v["returned"] = _kv(ret[0].split()[1:]) if ret else {}
    return v


def run_cycle(hx, name, rng, n):
    src, par = c20gen.cycle_script(name, rng, n)
    rc, out, err = run_script(hx, src, "cyc-" + name, args=("--idle",), watchdog=400, timeout=14400)
    spec = c20gen.CYCLES[name]
    v = judge_cycle(name, n, rc, out, err, metrics=spec[2] if len(spec) > 2 else None)
    v["src"] = src
    v["params"] = par
    return v


# ------------------------------------------------------------------------------------------------ mixes

def judge_mix(expect, chosen, rc, out, err):
    """Termination oracle + per-step ground-truth oracle.  Returns list of (sig, what) problems."""
    if isinstance(chosen, list):
        chosen = dict(enumerate(chosen))
    chosen = {int(k): v for k, v in chosen.items()}
    probs = []
    logs = {}
    returned = None
    steps = []
    for l in out.splitlines():
        if l.startswith("LOG "):
            f = l.split(None, 3)
            msg = l.split(None, 2)[2]
            m = re.match(r"(done|cancelled) (\d+)", msg)
            if m:
                logs.setdefault(int(m.group(2)), []).append(m.group(1) + (msg[len(m.group(0)):] if m.group(1) == "cancelled" else ""))
        elif l.startswith("RETURNED"):
            returned = _kv(l.split()[1:])
        elif l.startswith("S "):
            f = l.split()
            steps.append((int(f[1]), f[2], _kv(f[3:])))
    missing = [k for k in expect if k not in logs]
    wrong = [k for k in expect if k in logs and (len(logs[k]) != 1 or not logs[k][0].startswith(expect[k]) or
                                                 (expect[k] == "cancelled" and "stop" not in logs[k][0]))]
    if wrong:
        probs.append(("mix-wrong-completion:" + ",".join(sorted(set(chosen[k] for k in wrong))),
                      "task(s) %s completed as %s, expected %s" % (wrong, [logs[k] for k in wrong], [expect[k] for k in wrong])))
    if returned is not None:
        if missing:
            probs.append(("premature-exit:" + ",".join(sorted(set(chosen[k] for k in missing))),
                          "event loop returned while task(s) %s (%s) had not completed" % (missing, [chosen[k] for k in missing])))
        for key in ("lc", "tq", "rq", "susp", "lis", "inpipe", "calls", "zombies", "children"):
            if returned.get(key, 0) != 0:
                probs.append(("exit-with-outstanding:" + key, "at loop return %s=%s (%r)" % (key, returned.get(key), returned)))
        if steps and returned.get("roots") != steps[0][2].get("roots"):
            probs.append(("roots-unbalanced-at-exit",
                          "gc root count %s at loop return, %s before the program started" % (returned.get("roots"), steps[0][2].get("roots"))))
    else:
        if "SELFPIPE-STRANDED" in out:
            probs.append(("hang-events-stranded-in-self-pipe" + ("" if missing else ":all-completions-logged"),
                          "completions posted by other threads were left in the (edge-triggered) self pipe when its handler returned and nothing "
                          "can wake the loop again: %s; tasks not completed: %s (%s)"
                          % ([l for l in out.splitlines() if l.startswith("SELFPIPE-STRANDED")][:1], missing, sorted(set(chosen[k] for k in missing)))))
        elif "NO-WAKE-SOURCE" in out:
            probs.append(("stuck-no-wake-source:" + ",".join(sorted(set(chosen[k] for k in missing))),
                          "task(s) %s (%s) can never complete: the loop blocks with nothing that could wake it (%s)"
                          % (missing, [chosen[k] for k in missing], [l for l in out.splitlines() if l.startswith("NO-WAKE-SOURCE")][:1])))
        elif "IDLE-NOT-DONE" in out:
            probs.append(("hang-after-all-work" + ("" if missing else ":all-completions-logged"),
                          "nothing is outstanding, runnable or timed (independent ground truth) but janet_loop_done() is false - the loop blocks for ever: %s; "
                          "tasks not completed: %s" % ([l for l in out.splitlines() if l.startswith("IDLE-NOT-DONE")][:1], missing)))
        elif "STALE-TIMERS-BLOCK" in out:
            probs.append(("stale-timers-keep-loop-alive", "%s; tasks not completed: %s" % ([l for l in out.splitlines() if l.startswith("STALE-TIMERS-BLOCK")][:1], missing)))
        elif "WATCHDOG" in out or rc is None:
            if not missing:
                probs.append(("hang-after-all-work", "all %d expected completions were logged but the event loop did not return: %s"
                              % (len(expect), [l for l in out.splitlines() if l.startswith("WATCHDOG")][:1])))
            else:
                probs.append(("stuck:" + ",".join(sorted(set(chosen[k] for k in missing))),
                              "event loop did not return; task(s) %s (%s) never completed" % (missing, [chosen[k] for k in missing])))
        else:
            probs.append(("mix-crash", "harness rc=%s stderr=%s" % (rc, err[-1500:])))
    # per-step: the pending-work counter against the independent ground truth; loop_done <-> idle
    for n, tag, s in steps:
        gt = s["susp"] + s["lis"] + s["inpipe"] + s["calls"]
        if s["lc"] != gt:
            probs.append(("counter-vs-truth", "step %d (%s): listener_count=%d but suspended=%d + listening=%d + in-pipe=%d + helper-threads=%d = %d"
                          % (n, tag, s["lc"], s["susp"], s["lis"], s["inpipe"], s["calls"], gt)))
            break
        if "pw" in s and s["pw"] - s["pd"] != s["inpipe"]:
            probs.append(("selfpipe-conservation", "step %d: %d events written to the self pipe, %d read by the loop, yet %d are in the pipe"
                          % (n, s["pw"], s["pd"], s["inpipe"])))
            break
        idle = gt == 0 and s["tq"] == 0 and s["rq"] == 0
        if bool(s["done"]) != idle:
            probs.append(("done-vs-idle", "step %d: janet_loop_done()=%d but ground truth idle=%s (%r)" % (n, s["done"], idle, s)))
            break
        if tag == "step" and s["tq"] > 0 and s["stale"] == s["tq"] and s["rq"] == 0 and gt == 0:
            probs.append(("stale-timers-keep-loop-alive", "step %d: only stale timers (%d) remain and nothing else is outstanding, yet they were not dropped" % (n, s["tq"])))
            break
    return probs, {"steps": len(steps), "logs": len(logs), "returned": returned}


def run_mix(hx, rng, ntasks, idx, kinds=None):
    src, expect, chosen = c20gen.mix_script(rng, ntasks, kinds)
    rc, out, err = run_script(hx, src, "mix-%d" % idx, args=("--snap", "--events"), timeout=7200, watchdog=600)
    probs, info = judge_mix(expect, chosen, rc, out, err)
    return {"idx": idx, "src": src, "expect": expect, "chosen": chosen, "probs": probs, "info": info, "out": out, "rc": rc, "err": err[-2000:]}


# ------------------------------------------------------------------------------------------------ model correspondence

TCALL = {"await": "await", "nofiber": "nofiber", "proc": "procwait"}
DELIVER = {"await": "dawait", "nofiber": "dnofiber", "proc": "dproc", "chan": "dchan", "posted": "dposted", "null": "dnull"}


def model_lines(out):
    """harness log -> (protocol lines for jm_c20, [(line index of the `snap`, parsed S record)])"""
    lines, snaps, unknown = ["reset"], [], []
    for l in out.splitlines():
        if l.startswith("S "):
            f = l.split()
            snaps.append((len(lines), int(f[1]), f[2], _kv(f[3:])))
            lines.append("snap")
            continue
        if not l.startswith("E "):
            continue
        f = l.split()
        k = f[1]
        if k in ("sched", "pop"):
            lines.append("%s %s" % (k, f[2][1:]))
        elif k == "ran":
            lines.append("ran %s %s" % (f[2][1:], "s" if f[3] == "suspended" else "f"))
        elif k == "gcfiber":
            lines.append("gcfiber %s" % f[2][1:])
        elif k in ("astart", "aend"):
            lines.append(k)
        elif k == "extdec":
            lines.append("gclistener")
        elif k == "tcall":
            lines.append(TCALL.get(f[2], "unknown-tcall"))
        elif k == "deliver":
            lines.append(DELIVER.get(f[2], "unknown-deliver"))
        elif k == "post":
            lines.append("post " + f[2])
        elif k == "root":
            if f[2] in ("janet_channel_push_with_lock", "janet_channel_pop_with_lock"):
                lines.append("tchanpend")
            elif f[2] != "janet_ev_threaded_await":
                lines.append("unknown-root " + f[2])
        elif k == "unroot":
            if f[2] in ("cfun_channel_close", "janet_chan_deinit"):
                if f[3] == "1":
                    lines.append("tchandirect")
            elif f[2] not in ("janet_ev_default_threaded_callback", "janet_thread_chan_cb"):
                lines.append("unknown-unroot " + f[2])
        elif k in ("tadd", "tpop"):
            lines.append("%s %s %s" % (k, f[2][1:], "d" if f[3] == "deadline" else "t"))
        elif k == "sclose":
            lines.append("sclose " + f[2])
        elif k == "sigaction":
            lines.append("sigaction %s %s" % (f[2], f[3]))
        elif k == "op":
            lines.append("op " + f[2])
        elif k in ("step", "poll", "run"):
            pass
        else:
            lines.append("unknown-event " + k)
    return lines, snaps


def compare_model(lines, snaps, mout):
    """mout: driver output lines for `lines`.  -> list of differences (empty = model and implementation agree at every step)"""
    diffs = []
    for i, (l, o) in enumerate(zip(lines, mout)):
        if o.startswith("invalid") or o.startswith("unknown"):
            diffs.append("event #%d `%s`: model says %s" % (i, l, o))
            if len(diffs) > 3:
                return diffs
    roots0 = snaps[0][3]["roots"] if snaps else 0
    for idx, n, tag, s in snaps:
        m = _kv(mout[idx].split())
        exp = {"lc": s["lc"], "tq": s["tq"], "rq": s["rq"], "roots": s["roots"] - roots0, "susp": s["susp"], "lis": s["lis"],
               "pipecalls": s["inpipe"] + s["calls"], "done": s["done"], "orphan": s.get("lisclosed", 0)}
        if "sigh" in s:
            exp["sigh"] = s["sigh"]
        bad = {k: (m.get(k), v) for k, v in exp.items() if m.get(k) != v}
        if bad:
            diffs.append("step %d (%s): (model, implementation) differ in %s" % (n, tag, bad))
            if len(diffs) > 3:
                break
    return diffs


# ------------------------------------------------------------------------------------------------ run

def run(ctx):
    quick = ctx.tier == "quick"
    broken = []
    # (A) regenerate the tables the theorems are stated about
    try:
        ctx.build.boot()
        ctx.gen("Loop.lean", gen_loop.render(ctx.build.tree))
        gen_facts = gen_loop.extract(ctx.build.tree)
        ctx.gen("Fds.lean", gen_fds.render(ctx.build.tree))
        fd_facts = gen_fds.extract(ctx.build.tree)
        ctx.gen("FdPaths.lean", gen_fdpaths.render(ctx.build.tree))
        path_facts = gen_fdpaths.extract(ctx.build.tree)
        ctx.gen("RootPaths.lean", gen_rootpaths.render(ctx.build.tree))
        root_facts = gen_rootpaths.extract(ctx.build.tree)
        ctx.gen("CounterPaths.lean", gen_ctrpaths.render(ctx.build.tree))
        ctr_facts = gen_ctrpaths.extract(ctx.build.tree)
    except ExtractError as e:
        gen_facts = fd_facts = path_facts = root_facts = ctr_facts = None
        broken.append("translator tools/gen/loop.py / fds.py / fdpaths.py / rootpaths.py / ctrpaths.py: %s" % e)
        ctx.broken.append(broken[-1])
    except BuildError as e:
        ctx.violation("build-failed", {"kind": "build", "error": str(e)[-3000:]}, found=False, what="tree does not build")
        return ctx.finish("proof", {"evaluations": 0, "distinct_nontrivial": 0, "rule": "-", "samples": []})
    # (B,C) kernel check + axiom audit
    broken += ctx.obligations("JanetModel.Props.C20", THEOREMS)
    if broken and path_facts:
        for w in gen_fdpaths.diagnose(path_facts["paths"])[:6]:
            broken.append("descriptor path (theorem fd_paths_ok): " + w)
            ctx.say(broken[-1])
    if broken and ctr_facts:
        for w in gen_ctrpaths.diagnose(ctr_facts)[:6]:
            broken.append("listener_count path (theorem counter_paths_ok): " + w)
            ctx.say(broken[-1])
    if broken and fd_facts:
        # name the descriptor / child sites that differ from the table the model was last proved against (committed Gen/Fds.lean)
        try:
            import subprocess
            ref = subprocess.run(["git", "-C", VERIF, "show", "HEAD:lean/JanetModel/Gen/Fds.lean"], stdout=subprocess.PIPE).stdout.decode()
            refkeys = set(re.findall(r'^  \("[^"]*", "([^"]*)", "(create|close|wrap|raise)", "((?:[^"\\]|\\.)*)"', ref, re.M))
            cur = set((fn, k, key.replace("\\", "\\\\").replace('"', '\\"')) for _, fn, k, key, _ in fd_facts["fd"])
            added, removed = sorted(cur - refkeys), sorted(refkeys - cur)
            if added or removed:
                broken.append("descriptor call sites differ from the table the model mirrors: added %s; removed %s" % (added[:6], removed[:6]))
                ctx.say(broken[-1])
        except Exception as e:  # diagnosis only
            ctx.say("site diff unavailable: %s" % e)
    if not quick:
        ok, log = ctx.leanchecker("JanetModel.Props.C20")
        if not ok:
            broken.append("leanchecker JanetModel.Props.C20: " + log[-300:])
    exe = ctx.driver()
    try:
        ctx.build.variant("asan")
        hx = ctx.build.harness("asan", "c20loop", [os.path.join(VERIF, "harness/C20/c20loop.c")])
    except BuildError as e:
        ctx.violation("build-failed", {"kind": "build", "error": str(e)[-3000:]}, found=False,
                      what="tree or wrapper-TU harness does not build: %s" % str(e)[-300:])
        return ctx.finish("proof", {"evaluations": 0, "distinct_nontrivial": 0, "rule": "-", "samples": []})

    # ---------------- (E1) cycle plateaus
    names = sorted(c20gen.CYCLES)
    jobs = []
    for name in names:
        cost = c20gen.CYCLES[name][0]
        lo, hi = c20gen.COST_N[cost]
        # every cycle at several repeat counts across the range 50..5000 (quick: 50..~600); N varies a little with the seed
        sizes = [50, lo] if quick else [50, lo, hi]
        if cost in c20gen.SINGLE_SIZE:
            sizes = [lo] if quick else [lo, hi]
        for si, n in enumerate(sizes):
            n = n + ctx.rng.fork("n/%s/%d" % (name, si)).below(max(1, n // 4))
            jobs.append((name, ctx.rng.fork("cycle/%s/%d" % (name, si)), n))
    jobs.sort(key=lambda j: -j[2])
    ctx.say("cycles: %d kinds, N in [%d, %d]" % (len(jobs), min(j[2] for j in jobs), max(j[2] for j in jobs)))
    with cf.ThreadPoolExecutor(14) as ex:
        cyc = list(ex.map(lambda j: run_cycle(hx, *j), jobs))
    leaking = [v for v in cyc if v["leaks"] or v["fail"]]
    for v in leaking:
        if v["fail"]:
            sig = "cycle-fail:%s" % v["name"]
            what = "cycle `%s` x%d: %s" % (v["name"], v["N"], v["fail"][:400])
        else:
            sig = "cycle-leak:%s:%s" % (v["name"], "+".join(sorted(v["leaks"])))
            what = "cycle `%s` repeated N=%d and 2N times: %s keep growing (p0,p1,p2)=%s" % (
                v["name"], v["N"], "/".join(sorted(v["leaks"])), {k: v["leaks"][k] for k in sorted(v["leaks"])})
        ctx.violation(sig, {"kind": "cycle", "name": v["name"], "N": v["N"], "params": v["params"], "source": v["src"],
                            "measures": v["measures"], "leaks": v["leaks"], "fail": v["fail"]}, what=what)

    # ---------------- (E2) task mixes: termination oracle + per-step ground truth.  Corpus scenarios run first.
    nmix = 600 if quick else 20000
    mjobs = []
    cdir = os.path.join(VERIF, "corpus", "C20")
    corpus = []
    for fn in sorted(os.listdir(cdir)) if os.path.isdir(cdir) else []:
        if fn.endswith(".json"):
            with open(os.path.join(cdir, fn)) as f:
                corpus.append((fn, json.load(f)))
    for i in range(nmix):
        r = ctx.rng.fork("mix/%d" % i)
        mjobs.append((r, r.range(1, 4) if i % 4 == 0 else r.range(4, 14 if quick or i % 3 else 28), i))
    def run_corpus(item):
        fn, c = item
        rc, out, err = run_script(hx, c["source"], "corpus-" + fn, args=("--snap", "--events"), timeout=1500, watchdog=600)
        expect = {int(k): v for k, v in c["expect"].items()}
        probs, info = judge_mix(expect, c["tasks"], rc, out, err)
        return {"idx": "corpus/" + fn, "src": c["source"], "expect": expect, "chosen": c["tasks"], "probs": probs, "info": info, "out": out,
                "rc": rc, "err": err[-2000:]}
    with cf.ThreadPoolExecutor(12) as ex:
        mixes = list(ex.map(run_corpus, corpus)) + list(ex.map(lambda j: run_mix(hx, *j), mjobs))
    kinds_hit = {}
    total_steps = 0
    seen_sigs = set()
    for m in mixes:
        total_steps += m["info"]["steps"]
        for k in (m["chosen"].values() if isinstance(m["chosen"], dict) else m["chosen"]):
            kinds_hit[k] = kinds_hit.get(k, 0) + 1
        for sig, what in m["probs"]:
            if sig in seen_sigs:
                continue
            seen_sigs.add(sig)
            ctx.violation(sig, {"kind": "mix", "source": m["src"], "expect": m["expect"], "tasks": m["chosen"], "problems": m["probs"],
                                "stdout_tail": m["out"][-3000:], "stderr_tail": m["err"]}, what="task mix #%s: %s" % (m["idx"], what))

    # ---------------- (D) correspondence: the Lean model replays the semantic event log of every mix and must agree with the
    # real counters after every janet_loop1 step
    corr_events = corr_snaps = 0
    corr_diffs = []
    if exe:
        all_lines, spans = [], []
        for m in mixes:
            lines, snaps = model_lines(m["out"])
            spans.append((len(all_lines), len(lines), snaps, m))
            all_lines += lines
        mout = ctx.model(all_lines + ["cfg"], exe=exe)
        for off, n, snaps, m in spans:
            d = compare_model(all_lines[off:off + n], snaps, mout[off:off + n])
            corr_events += n
            corr_snaps += len(snaps)
            if d:
                corr_diffs.append((m, d))
        if corr_diffs:
            m, d = corr_diffs[0]
            broken.append("correspondence model/implementation: %d of %d mixes differ; first (mix #%s): %s" % (len(corr_diffs), len(mixes), m["idx"], d[0]))
            ctx.broken.append(broken[-1])
    # the generated flag says the threaded-channel root is never released: the model proves the leak (tchan_root_never_released);
    # the cycles above show it on the implementation
    if gen_facts and not gen_facts["tchan_unroot"]["cb"] and not any(v["name"].startswith("thread-chan") and v["leaks"] for v in cyc):
        broken.append("Gen.Loop.tchanUnrootCb = false (theorem tchan_root_never_released applies) but no thread-chan cycle leaked roots")

    if gen_facts and gen_facts["proc_gc_wait_options"] != "0" and not any(v["name"].startswith("gc-only-") and v["leaks"] for v in cyc):
        broken.append("janet_proc_gc no longer waits blockingly (waitpid options %s; theorem nohang_finalizer_leaves_zombies applies) but no gc-only-* "
                      "cycle left children behind" % gen_facts["proc_gc_wait_options"])
    if gen_facts and not gen_facts["close_notifies_both"] and not any(v["name"].startswith("duplex-") and v["fail"] for v in cyc):
        broken.append("Gen.Loop.closeNotifiesBoth = false (theorem close_with_two_listeners_orphans_writer applies) but no duplex-* cycle hung")

    if broken and not ctx.nviol:
        # something in A-D no longer checks and the standard sweep found no failing input: search harder before giving up
        extra = []
        for i in range(200 if quick else 1000):
            r = ctx.rng.fork("extra-mix/%d" % i)
            extra.append((r, r.range(6, 16), 10000 + i))
        with cf.ThreadPoolExecutor(12) as ex:
            for m in ex.map(lambda j: run_mix(hx, *j), extra):
                for sig, what in m["probs"]:
                    if sig not in seen_sigs:
                        seen_sigs.add(sig)
                        ctx.violation(sig, {"kind": "mix", "source": m["src"], "expect": m["expect"], "tasks": m["chosen"], "problems": m["probs"],
                                            "stdout_tail": m["out"][-3000:], "stderr_tail": m["err"], "broken": broken},
                                      what="(after %s) task mix #%d: %s" % (broken[0][:80], m["idx"], what))
    if broken and not ctx.nviol:
        ctx.violation("broken:" + broken[0][:80], {"kind": "broken-obligation", "broken": broken,
                                                   "first_diff_mix": (corr_diffs[0][0]["src"] if corr_diffs else None),
                                                   "first_diffs": (corr_diffs[0][1] if corr_diffs else None)}, found=False,
                      what="no longer shown to hold: " + "; ".join(broken)[:600])
    cov = {
        "evaluations": sum(v["N"] * 2 + v["params"]["warm"] for v in cyc) + total_steps,
        "distinct_nontrivial": len(set(v["src"] for v in cyc)) + len(set(m["src"] for m in mixes)),
        "rule": "cycle = one generated operation cycle repeated warm+N+N times with three forced-collection plateaus (evaluations counts "
                "cycle executions); mix = generated program of 1..14 tasks with a known completion set, judged at every janet_loop1 step "
                "(evaluations counts steps); non-trivial = distinct cycle kind / distinct mix source",
        "samples": [cyc[0]["src"][-300:], mixes[0]["src"][-600:]] if cyc and mixes else [],
        "cycle_kinds": {name: sorted(v["N"] for v in cyc if v["name"] == name) for name in names},
        "cycle_leaks": {v["name"]: sorted(v["leaks"]) or v["fail"] for v in leaking},
        "mixes": len(mixes), "mix_steps": total_steps, "mix_task_kinds": kinds_hit,
        "correspondence_events": corr_events, "correspondence_steps_compared": corr_snaps, "correspondence_mixes_differing": len(corr_diffs),
        "generated": {"tchan_unroot": gen_facts["tchan_unroot"], "close_notifies_both": gen_facts["close_notifies_both"],
                      "fd_sites": dict((k, sum(1 for x in fd_facts["fd"] if x[2] == k)) for k in ("create", "close", "wrap", "raise")) if fd_facts else None,
                      "root_paths": len(root_facts["paths"]) if root_facts else None,
                      "counter_paths": len(ctr_facts["paths"]) if ctr_facts else None,
                      "fd_paths": len(path_facts["paths"]) if path_facts else None, "fd_path_functions": path_facts["functions"] if path_facts else None,
                      "selfpipe": [gen_facts["selfpipe_batch"], gen_facts["selfpipe_recur"], gen_facts["selfpipe_edge"]],
                      "child_sites": len(fd_facts["child"]) if fd_facts else None, "thread_sites": len(fd_facts["thread"]) if fd_facts else None,
                      "selfpipe_dec_needs_cb": gen_facts["selfpipe_dec_needs_cb"], "proc_gc_wait_options": gen_facts["proc_gc_wait_options"], "counter_sites": len(gen_facts["counter"]), "root_sites": len(gen_facts["roots"])} if gen_facts else None,
    }
    return ctx.finish("proof", cov, assumptions=[
        "descriptor / child / zombie counts read from /proc; heap blocks and roots from janet_vm after two forced collections",
        "leak criterion: growth between the N and 2N plateaus >= max(3, N/10), i.e. at least one unit per ten cycles",
        "model: bookkeeping level (counters, flags, queues as lists); the ops a fiber performs and the order of completions are inputs",
        "semantic events are captured by function-like macros around calls ev.c makes (pthread_create, read, write, janet_gcroot, "
        "janet_continue_signal, epoll_wait) and by diffing the run queue / timer heap between them; ev.c itself is unmodified",
        "kernel, libc, pthreads outside the model",
    ])


def replay(ctx, path):
    r = json.load(open(path))
    print(json.dumps({k: v for k, v in r.items() if k not in ("source", "stdout_tail")}, indent=1)[:3000])
    hx = ctx.build.harness("asan", "c20loop", [os.path.join(VERIF, "harness/C20/c20loop.c")])
    if r.get("kind") == "cycle":
        rc, out, err = run_script(hx, r["source"], "replay", args=("--idle",), watchdog=400)
        spec = c20gen.CYCLES.get(r["name"], ())
        v = judge_cycle(r["name"], r["N"], rc, out, err, metrics=spec[2] if len(spec) > 2 else None)
        print(out[-1500:])
        if v["leaks"] or v["fail"]:
            ctx.violation(r["signature"], dict(r, reproduced=True), what="replay reproduces: %s %s" % (v["leaks"], v["fail"]))
    elif r.get("kind") == "mix":
        rc, out, err = run_script(hx, r["source"], "replay", args=("--snap", "--events"), timeout=1500, watchdog=600)
        probs, info = judge_mix({int(k): v for k, v in r["expect"].items()}, r["tasks"], rc, out, err)
        print(out[-3000:])
        for sig, what in probs:
            ctx.violation(sig, dict(r, reproduced=True), what="replay reproduces: " + what)
    else:
        return run(ctx)
    return ctx.finish("proof", {"evaluations": 1, "distinct_nontrivial": 1, "rule": "replay", "samples": [path]})
