#!/bin/sh
# MANIFEST.setup_cmd: build the framework from files on disk only (offline).
set -e
cd "$(dirname "$0")"
( cd lean && lake build )
python3 vlib/build.py plain asan >/dev/null
echo setup-ok
